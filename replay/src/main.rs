//! Replay tool: runs the REAL swc-plugin-vue-jsx visitor (path dependency on /repo/visitor, real swc_core) on
//! JSX/TSX sources through the same pipeline as the repository's fixture test (parse -> resolver -> visitor ->
//! codegen).  Input: JSON lines {"id":..,"syntax":"jsx"|"tsx","options":{..},"source":".."} on stdin.
//! Output: JSON lines {"id":..,"status":"ok"|"panic"|"parse_error","errors":n,"output":".."}.
use std::io::{BufRead, Write};
use std::panic::{catch_unwind, AssertUnwindSafe};
use swc_core::{
    common::Mark,
    ecma::{
        parser::{EsSyntax, Syntax, TsSyntax},
        transforms::{base::resolver, testing::Tester},
        visit::visit_mut_pass,
    },
};
use swc_vue_jsx_visitor::{Options, VueJsxTransformVisitor};

fn run_case(case: &serde_json::Value) -> serde_json::Value {
    let id = case["id"].clone();
    let is_ts = case["syntax"].as_str() == Some("tsx");
    let source = case["source"].as_str().unwrap_or("").to_string();
    let options: Options = match serde_json::from_value(case["options"].clone()) {
        Ok(o) => o,
        Err(e) => return serde_json::json!({"id": id, "status": "bad_options", "message": e.to_string()}),
    };
    let syntax = if is_ts {
        Syntax::Typescript(TsSyntax { tsx: true, ..Default::default() })
    } else {
        Syntax::Es(EsSyntax { jsx: true, ..Default::default() })
    };
    let r = catch_unwind(AssertUnwindSafe(|| {
        let mut result = (String::from("parse_error"), 0usize, String::new());
        let res = catch_unwind(AssertUnwindSafe(|| {
            Tester::run(|tester| {
                let unresolved_mark = Mark::new();
                let pass = (
                    resolver(unresolved_mark, Mark::new(), is_ts),
                    visit_mut_pass(VueJsxTransformVisitor::new(options.clone(), unresolved_mark, Some(tester.comments.clone()))),
                );
                let name = if is_ts { "input.tsx" } else { "input.jsx" };
                match tester.apply_transform(pass, name, syntax, Some(true), &source) {
                    Ok(program) => {
                        let errors = tester.handler.err_count();
                        let comments = tester.comments.clone();
                        let printed = tester.print(&program, &comments);
                        result = (String::from("ok"), errors, printed);
                        Ok(())
                    }
                    Err(()) => { result = (String::from("parse_error"), tester.handler.err_count(), String::new()); Ok(()) }
                }
            })
        }));
        (res.is_err(), result)
    }));
    match r {
        Ok((false, (status, errors, output))) => serde_json::json!({"id": id, "status": status, "errors": errors, "output": output}),
        Ok((true, (status, errors, output))) => {
            // Tester::run panics after the closure when diagnostics were emitted ("Stderr: ..."): not a transform panic
            if status == "ok" { serde_json::json!({"id": id, "status": "ok", "errors": errors.max(1), "output": output}) }
            else if status == "parse_error" && errors > 0 { serde_json::json!({"id": id, "status": "parse_error", "errors": errors, "output": ""}) }
            else { serde_json::json!({"id": id, "status": "panic", "errors": errors, "output": output}) }
        }
        Err(_) => serde_json::json!({"id": id, "status": "panic", "errors": 0, "output": ""}),
    }
}

fn main() {
    std::panic::set_hook(Box::new(|_| {}));
    let stdin = std::io::stdin();
    let stdout = std::io::stdout();
    for line in stdin.lock().lines() {
        let line = line.unwrap();
        if line.trim().is_empty() { continue; }
        let case: serde_json::Value = match serde_json::from_str(&line) { Ok(v) => v, Err(_) => continue };
        let out = run_case(&case);
        let mut o = stdout.lock();
        writeln!(o, "{}", out).unwrap();
    }
}
