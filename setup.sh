#!/bin/bash
# One-time setup after a fresh restore (offline): pre-build the Kani build copy and the replay tool so that the
# first check does not pay for it.  Everything is rebuilt from /repo's working tree on every check anyway.
set -e
cd "$(dirname "$0")"
export CARGO_NET_OFFLINE=true
python3 - <<'PY'
import sys; sys.path.insert(0, "lib")
import kani_run, replay
kani_run.prepare_build_copy()
ok, log, t = kani_run.codegen()
print("kani build copy:", "ok" if ok else "FAILED", "%.0fs" % t)
if not ok:
    print(log[-3000:])
    sys.exit(1)
print("replay tool:", "ok" if replay.build_replay_tool() else "FAILED")
PY
# stand-in crates vs the real swc_core / css_dataset (names and field types)
python3 tools/conformance.py | tail -1
