use serde::{
    de::{Error, Unexpected, Visitor},
    Deserialize, Deserializer,
};
use std::{fmt, ops::Deref};

#[derive(Clone, Debug, Deserialize)]
#[serde(rename_all = "camelCase", default)]
pub struct Options {
    pub transform_on: bool,
    pub optimize: bool,
    pub custom_element_patterns: Vec<Regex>,
    pub merge_props: bool,
    pub enable_object_slots: bool,
    pub pragma: Option<String>,
    pub resolve_type: bool,
}

impl Default for Options {
    fn default() -> Self {
        Self {
            transform_on: false,
            optimize: false,
            custom_element_patterns: Default::default(),
            merge_props: true,
            enable_object_slots: true,
            pragma: None,
            resolve_type: false,
        }
    }
}

#[derive(Clone, Debug)]
pub struct Regex(regex::Regex);

impl Regex {
    pub fn new(re: &str) -> Result<Self, regex::Error> {
        regex::Regex::new(re).map(Self)
    }
}

impl From<regex::Regex> for Regex {
    fn from(value: regex::Regex) -> Self {
        Self(value)
    }
}

impl Deref for Regex {
    type Target = regex::Regex;

    fn deref(&self) -> &Self::Target {
        &self.0
    }
}

impl<'de> Deserialize<'de> for Regex {
    fn deserialize<D>(deserializer: D) -> Result<Regex, D::Error>
    where
        D: Deserializer<'de>,
    {
        deserializer.deserialize_string(RegexVisitor)
    }
}

/// Serde visitor for parsing string as the [`Regex`] type.
struct RegexVisitor;

impl Visitor<'_> for RegexVisitor {
    type Value = Regex;

    fn expecting(&self, formatter: &mut fmt::Formatter) -> fmt::Result {
        write!(formatter, "a string that represents a regex")
    }

    fn visit_str<E>(self, v: &str) -> Result<Self::Value, E>
    where
        E: Error,
    {
        regex::Regex::new(v)
            .map(Regex)
            .map_err(|_| E::invalid_value(Unexpected::Str(v), &"a valid regex"))
    }

    fn visit_string<E>(self, v: String) -> Result<Self::Value, E>
    where
        E: Error,
    {
        regex::Regex::new(&v)
            .map(Regex)
            .map_err(|_| E::invalid_value(Unexpected::Str(&v), &"a valid regex"))
    }
}
