use std::{collections::BTreeSet, str::Split};
use swc_core::{
    common::DUMMY_SP,
    ecma::{
        ast::*,
        atoms::Atom,
        utils::{quote_ident, quote_str},
    },
    plugin::errors::HANDLER,
};

pub(crate) fn is_directive(jsx_attr: &JSXAttr) -> bool {
    let name = match &jsx_attr.name {
        JSXAttrName::Ident(ident) => &ident.sym,
        JSXAttrName::JSXNamespacedName(JSXNamespacedName { ns, .. }) => &ns.sym,
    };
    matches!(name.as_bytes(), [b'v', b'-' | b'A'..=b'Z', ..])
}

pub(crate) struct NormalDirective {
    pub(crate) name: Atom,
    pub(crate) argument: Option<Expr>,
    pub(crate) modifiers: Option<Expr>,
    pub(crate) value: Expr,
}

pub(crate) struct VModelDirective {
    pub(crate) argument: Option<Expr>,
    pub(crate) transformed_argument: Option<Expr>,
    pub(crate) modifiers: Option<Expr>,
    pub(crate) value: Expr,
}

pub(crate) enum Directive {
    Normal(NormalDirective),
    Text(Expr),
    Html(Expr),
    VModel(VModelDirective),
    Slots(Option<Box<Expr>>),
}

pub(crate) fn parse_directive(jsx_attr: &JSXAttr, is_component: bool) -> Directive {
    let (name, argument, splitted) = match &jsx_attr.name {
        JSXAttrName::Ident(ident) => {
            let mut splitted = ident
                .sym
                .trim_start_matches('v')
                .trim_start_matches('-')
                .split('_');
            (
                lowercase_first_letter(splitted.next().unwrap_or(&*ident.sym)),
                None,
                splitted,
            )
        }
        JSXAttrName::JSXNamespacedName(JSXNamespacedName { ns, name, .. }) => {
            let mut splitted = name.sym.split('_');
            (
                lowercase_first_letter(ns.sym.trim_start_matches('v').trim_start_matches('-')),
                Some(splitted.next().unwrap_or(&*name.sym)),
                splitted,
            )
        }
    };

    let mut argument = argument.map(|argument| Expr::Lit(Lit::Str(quote_str!(argument))));

    match &*name {
        "html" => return parse_v_html_directive(jsx_attr),
        "text" => return parse_v_text_directive(jsx_attr),
        "model" => return parse_v_model_directive(jsx_attr, is_component, argument, splitted),
        "slots" => return parse_v_slots_directive(jsx_attr),
        _ => {}
    }

    let mut modifiers = None;
    let value;

    if let Some(JSXAttrValue::JSXExprContainer(JSXExprContainer {
        expr: JSXExpr::Expr(expr),
        ..
    })) = &jsx_attr.value
    {
        if let Expr::Array(ArrayLit { elems, .. }) = &**expr {
            value = match elems.first() {
                Some(Some(ExprOrSpread { spread: None, expr })) => (**expr).clone(),
                _ => Expr::Ident(quote_ident!("").into()),
            };
            if let Some(Some(ExprOrSpread { spread: None, expr })) = elems.get(1) {
                match &**expr {
                    Expr::Array(ArrayLit { elems, .. }) => {
                        modifiers = Some(parse_modifiers(elems));
                    }
                    expr => {
                        if argument.is_none() {
                            argument = Some(expr.clone());
                        }
                        if let Some(Some(ExprOrSpread { spread: None, expr })) = elems.get(2) {
                            if let Expr::Array(ArrayLit { elems, .. }) = &**expr {
                                modifiers = Some(parse_modifiers(elems));
                            }
                        }
                    }
                }
            } else {
                modifiers = Some(splitted.map(Atom::from).collect());
            }
        } else {
            modifiers = Some(splitted.map(Atom::from).collect());
            value = (**expr).clone();
        }
    } else {
        modifiers = Some(splitted.map(Atom::from).collect());
        value = Expr::Ident(quote_ident!("").into());
    }

    Directive::Normal(NormalDirective {
        name: Atom::from(name),
        argument: if modifiers
            .as_ref()
            .map(|modifiers| !modifiers.is_empty())
            .unwrap_or_default()
        {
            argument.or_else(|| {
                Some(Expr::Unary(UnaryExpr {
                    span: DUMMY_SP,
                    op: op!("void"),
                    arg: Box::new(Expr::Lit(Lit::Num(Number {
                        span: DUMMY_SP,
                        value: 0.0,
                        raw: None,
                    }))),
                }))
            })
        } else {
            argument
        },
        modifiers: modifiers.and_then(|modifiers| transform_modifiers(modifiers, false)),
        value,
    })
}

/// `vMyDir` names the directive `myDir`: only the first letter is lower-cased.
fn lowercase_first_letter(name: &str) -> String {
    let mut chars = name.chars();
    match chars.next() {
        Some(first) => {
            let mut lowered = String::with_capacity(name.len());
            lowered.push(first.to_ascii_lowercase());
            lowered.push_str(chars.as_str());
            lowered
        }
        None => String::new(),
    }
}

fn parse_modifiers(exprs: &[Option<ExprOrSpread>]) -> BTreeSet<Atom> {
    exprs
        .iter()
        .filter_map(|expr| match expr {
            Some(ExprOrSpread { spread: None, expr }) => match &**expr {
                Expr::Lit(Lit::Str(Str { value, .. })) => Some(value.clone()),
                _ => None,
            },
            _ => None,
        })
        .collect()
}

fn parse_v_text_directive(jsx_attr: &JSXAttr) -> Directive {
    let expr = match &jsx_attr.value {
        Some(JSXAttrValue::Lit(lit)) => Expr::Lit(lit.clone()),
        Some(JSXAttrValue::JSXExprContainer(JSXExprContainer {
            expr: JSXExpr::Expr(expr),
            ..
        })) => {
            if let Some(Some(ExprOrSpread { spread: None, expr })) =
                expr.as_array().and_then(|array| array.elems.first())
            {
                (**expr).clone()
            } else {
                (**expr).clone()
            }
        }
        _ => {
            HANDLER.with(|handler| {
                handler.span_err(
                    jsx_attr.span,
                    "You have to use JSX Expression inside your `v-text`.",
                );
            });
            Expr::Lit(Lit::Bool(Bool {
                span: DUMMY_SP,
                value: true,
            }))
        }
    };

    Directive::Text(expr)
}

fn parse_v_html_directive(jsx_attr: &JSXAttr) -> Directive {
    let expr = match &jsx_attr.value {
        Some(JSXAttrValue::Lit(lit)) => Expr::Lit(lit.clone()),
        Some(JSXAttrValue::JSXExprContainer(JSXExprContainer {
            expr: JSXExpr::Expr(expr),
            ..
        })) => {
            if let Some(Some(ExprOrSpread { spread: None, expr })) =
                expr.as_array().and_then(|array| array.elems.first())
            {
                (**expr).clone()
            } else {
                (**expr).clone()
            }
        }
        _ => {
            HANDLER.with(|handler| {
                handler.span_err(
                    jsx_attr.span,
                    "You have to use JSX Expression inside your `v-html`.",
                );
            });
            Expr::Lit(Lit::Bool(Bool {
                span: DUMMY_SP,
                value: true,
            }))
        }
    };

    Directive::Html(expr)
}

fn parse_v_model_directive(
    jsx_attr: &JSXAttr,
    is_component: bool,
    mut argument: Option<Expr>,
    splitted_attr_name: Split<char>,
) -> Directive {
    let attr_value = match &jsx_attr.value {
        Some(JSXAttrValue::JSXExprContainer(JSXExprContainer {
            expr: JSXExpr::Expr(expr),
            ..
        })) => (**expr).clone(),
        _ => {
            HANDLER.with(|handler| {
                handler.span_err(
                    jsx_attr.span,
                    "You have to use JSX Expression inside your `v-model`.",
                );
            });
            Expr::Ident(quote_ident!("").into())
        }
    };

    let mut modifiers = None;
    let value;

    if let Expr::Array(ArrayLit { elems, .. }) = attr_value {
        value = match elems.first() {
            Some(Some(ExprOrSpread { spread: None, expr })) => (**expr).clone(),
            _ => Expr::Ident(quote_ident!("").into()),
        };
        if let Some(Some(ExprOrSpread { spread: None, expr })) = elems.get(1) {
            match &**expr {
                Expr::Array(ArrayLit { elems, .. }) => {
                    if is_component && argument.is_none() {
                        argument = Some(Expr::Lit(Lit::Null(Null { span: DUMMY_SP })));
                    }
                    modifiers = Some(parse_modifiers(elems));
                }
                expr => {
                    if argument.is_none() {
                        argument = Some(expr.clone());
                    }
                    if let Some(Some(ExprOrSpread { spread: None, expr })) = elems.get(2) {
                        if let Expr::Array(ArrayLit { elems, .. }) = &**expr {
                            modifiers = Some(parse_modifiers(elems));
                        }
                    }
                }
            }
        } else {
            if is_component && argument.is_none() {
                argument = Some(Expr::Lit(Lit::Null(Null { span: DUMMY_SP })));
            }
            modifiers = Some(splitted_attr_name.map(Atom::from).collect());
        }
    } else {
        modifiers = Some(splitted_attr_name.map(Atom::from).collect());
        value = attr_value.clone();
    }

    Directive::VModel(VModelDirective {
        argument: argument.clone(),
        transformed_argument: if !is_component
            && modifiers
                .as_ref()
                .map(|modifiers| !modifiers.is_empty())
                .unwrap_or_default()
        {
            argument.or_else(|| {
                Some(Expr::Unary(UnaryExpr {
                    span: DUMMY_SP,
                    op: op!("void"),
                    arg: Box::new(Expr::Lit(Lit::Num(Number {
                        span: DUMMY_SP,
                        value: 0.0,
                        raw: None,
                    }))),
                }))
            })
        } else {
            argument
        },
        modifiers: modifiers.and_then(|modifiers| transform_modifiers(modifiers, is_component)),
        value,
    })
}

fn transform_modifiers(modifiers: BTreeSet<Atom>, quote_prop: bool) -> Option<Expr> {
    if modifiers.is_empty() {
        None
    } else {
        Some(Expr::Object(ObjectLit {
            span: DUMMY_SP,
            props: modifiers
                .into_iter()
                .map(|modifier| {
                    PropOrSpread::Prop(Box::new(Prop::KeyValue(KeyValueProp {
                        key: if quote_prop || !is_identifier_name(&modifier) {
                            PropName::Str(quote_str!(modifier))
                        } else {
                            PropName::Ident(quote_ident!(modifier))
                        },
                        value: Box::new(Expr::Lit(Lit::Bool(Bool {
                            span: DUMMY_SP,
                            value: true,
                        }))),
                    })))
                })
                .collect(),
        }))
    }
}

/// Whether `text` can be written as an unquoted object key.
fn is_identifier_name(text: &str) -> bool {
    let mut chars = text.chars();
    chars.next().map(Ident::is_valid_start).unwrap_or_default() && chars.all(Ident::is_valid_continue)
}

fn parse_v_slots_directive(jsx_attr: &JSXAttr) -> Directive {
    let expr = match &jsx_attr.value {
        Some(JSXAttrValue::JSXExprContainer(JSXExprContainer {
            expr: JSXExpr::Expr(expr),
            ..
        })) => match &**expr {
            Expr::Ident(..) | Expr::Object(..) => Some(expr.clone()),
            _ => None,
        },
        _ => None,
    };
    Directive::Slots(expr)
}
