use crate::VueJsxTransformVisitor;
use indexmap::{IndexMap, IndexSet};
use std::borrow::Cow;
use swc_core::{
    common::{comments::Comments, EqIgnoreSpan, Span, Spanned, DUMMY_SP},
    ecma::{
        ast::*,
        atoms::{atom, Atom},
        utils::{quote_ident, quote_str},
    },
    plugin::errors::HANDLER,
};

enum RefinedTsTypeElement {
    Property(TsPropertySignature),
    GetterSignature(TsGetterSignature),
    MethodSignature(TsMethodSignature),
    CallSignature(TsCallSignatureDecl),
}

struct PropIr {
    types: IndexSet<Option<Atom>>,
    required: bool,
}

impl<C> VueJsxTransformVisitor<C>
where
    C: Comments,
{
    pub(crate) fn extract_props_type(&mut self, setup_fn: &ExprOrSpread) -> Option<Expr> {
        let mut defaults = None;
        let first_param_type = if let ExprOrSpread { expr, spread: None } = setup_fn {
            match &**expr {
                Expr::Arrow(arrow) => arrow.params.first().and_then(|param| {
                    if let Pat::Assign(AssignPat { right, .. }) = param {
                        defaults = Some(&**right);
                    }
                    extract_type_ann_from_pat(param)
                }),
                Expr::Fn(fn_expr) => fn_expr.function.params.first().and_then(|param| {
                    if let Pat::Assign(AssignPat { right, .. }) = &param.pat {
                        defaults = Some(&**right);
                    }
                    extract_type_ann_from_pat(&param.pat)
                }),
                _ => None,
            }?
        } else {
            return None;
        };

        enum Defaults<'n> {
            Static(Vec<(Cow<'n, PropName>, Expr)>),
            Dynamic(&'n Expr),
        }
        let defaults = defaults.map(|defaults| {
            if let Expr::Object(ObjectLit { props, .. }) = defaults {
                if let Some(props) = props
                    .iter()
                    .map(|prop| {
                        if let PropOrSpread::Prop(prop) = prop {
                            match &**prop {
                                Prop::Shorthand(ident) => Some((
                                    Cow::Owned(PropName::Ident(ident.clone().into())),
                                    Expr::Arrow(ArrowExpr {
                                        params: vec![],
                                        body: Box::new(BlockStmtOrExpr::Expr(Box::new(
                                            Expr::Ident(ident.clone()),
                                        ))),
                                        is_async: false,
                                        is_generator: false,
                                        span: DUMMY_SP,
                                        ..Default::default()
                                    }),
                                )),
                                Prop::KeyValue(KeyValueProp { key, value }) => {
                                    try_unwrap_lit_prop_name(key).map(|key| {
                                        (
                                            key,
                                            if value.is_lit() {
                                                (**value).clone()
                                            } else {
                                                Expr::Arrow(ArrowExpr {
                                                    params: vec![],
                                                    body: Box::new(BlockStmtOrExpr::Expr(
                                                        value.clone(),
                                                    )),
                                                    is_async: false,
                                                    is_generator: false,
                                                    span: DUMMY_SP,
                                                    ..Default::default()
                                                })
                                            },
                                        )
                                    })
                                }
                                Prop::Getter(GetterProp {
                                    key,
                                    body: Some(body),
                                    ..
                                }) => try_unwrap_lit_prop_name(key).map(|key| {
                                    (
                                        key,
                                        Expr::Arrow(ArrowExpr {
                                            params: vec![],
                                            body: Box::new(BlockStmtOrExpr::BlockStmt(
                                                body.clone(),
                                            )),
                                            is_async: false,
                                            is_generator: false,
                                            span: DUMMY_SP,
                                            ..Default::default()
                                        }),
                                    )
                                }),
                                Prop::Method(MethodProp { key, function }) => {
                                    try_unwrap_lit_prop_name(key).map(|key| {
                                        (
                                            key,
                                            Expr::Fn(FnExpr {
                                                ident: None,
                                                function: function.clone(),
                                            }),
                                        )
                                    })
                                }
                                _ => None,
                            }
                        } else {
                            None
                        }
                    })
                    .collect::<Option<Vec<_>>>()
                {
                    Defaults::Static(props)
                } else {
                    Defaults::Dynamic(defaults)
                }
            } else {
                Defaults::Dynamic(defaults)
            }
        });

        Some(match defaults {
            Some(Defaults::Static(props)) => {
                Expr::Object(self.build_props_type(first_param_type, Some(props)))
            }
            Some(Defaults::Dynamic(expr)) => {
                let merge_defaults = self.import_from_vue("mergeDefaults");
                Expr::Call(CallExpr {
                    callee: Callee::Expr(Box::new(Expr::Ident(merge_defaults))),
                    args: vec![
                        ExprOrSpread {
                            expr: Box::new(Expr::Object(
                                self.build_props_type(first_param_type, None),
                            )),
                            spread: None,
                        },
                        ExprOrSpread {
                            expr: Box::new(expr.clone()),
                            spread: None,
                        },
                    ],
                    span: if let Some(comments) = &self.comments {
                        let span = Span::dummy_with_cmt();
                        comments.add_pure_comment(span.lo);
                        span
                    } else {
                        DUMMY_SP
                    },
                    ..Default::default()
                })
            }
            None => Expr::Object(self.build_props_type(first_param_type, None)),
        })
    }

    fn build_props_type(
        &self,
        TsTypeAnn { type_ann, .. }: &TsTypeAnn,
        defaults: Option<Vec<(Cow<PropName>, Expr)>>,
    ) -> ObjectLit {
        let mut props = Vec::with_capacity(3);
        self.resolve_type_elements(type_ann, &mut props);

        let cap = props.len();
        let irs = props.into_iter().fold(
            IndexMap::<PropName, PropIr>::with_capacity(cap),
            |mut irs, prop| {
                match prop {
                    RefinedTsTypeElement::Property(TsPropertySignature {
                        key,
                        computed,
                        optional,
                        type_ann,
                        ..
                    }) => {
                        let prop_name = extract_prop_name(*key, computed);
                        let types = if let Some(type_ann) = type_ann {
                            self.infer_runtime_type(&type_ann.type_ann)
                        } else {
                            let mut types = IndexSet::with_capacity(1);
                            types.insert(None);
                            types
                        };
                        if let Some((_, ir)) = irs
                            .iter_mut()
                            .find(|(key, _)| prop_name.eq_ignore_span(key))
                        {
                            if optional {
                                ir.required = false;
                            }
                            ir.types.extend(types);
                        } else {
                            irs.insert(
                                prop_name,
                                PropIr {
                                    types,
                                    required: !optional,
                                },
                            );
                        }
                    }
                    RefinedTsTypeElement::GetterSignature(TsGetterSignature {
                        key,
                        computed,
                        type_ann,
                        ..
                    }) => {
                        let prop_name = extract_prop_name(*key, computed);
                        let types = if let Some(type_ann) = type_ann {
                            self.infer_runtime_type(&type_ann.type_ann)
                        } else {
                            let mut types = IndexSet::with_capacity(1);
                            types.insert(None);
                            types
                        };
                        if let Some((_, ir)) = irs
                            .iter_mut()
                            .find(|(key, _)| prop_name.eq_ignore_span(key))
                        {
                            ir.types.extend(types);
                        } else {
                            irs.insert(
                                prop_name,
                                PropIr {
                                    types,
                                    required: true,
                                },
                            );
                        }
                    }
                    RefinedTsTypeElement::MethodSignature(TsMethodSignature {
                        key,
                        computed,
                        optional,
                        ..
                    }) => {
                        let prop_name = extract_prop_name(*key, computed);
                        let ty = Some(atom!("Function"));
                        if let Some((_, ir)) = irs
                            .iter_mut()
                            .find(|(key, _)| prop_name.eq_ignore_span(key))
                        {
                            if optional {
                                ir.required = false;
                            }
                            ir.types.insert(ty);
                        } else {
                            let mut types = IndexSet::with_capacity(1);
                            types.insert(ty);
                            irs.insert(
                                prop_name,
                                PropIr {
                                    types,
                                    required: !optional,
                                },
                            );
                        }
                    }
                    RefinedTsTypeElement::CallSignature(..) => {}
                }
                irs
            },
        );

        ObjectLit {
            props: irs
                .into_iter()
                .map(|(prop_name, mut ir)| {
                    let mut props = vec![
                        PropOrSpread::Prop(Box::new(Prop::KeyValue(KeyValueProp {
                            key: PropName::Ident(quote_ident!("type")),
                            value: Box::new(if ir.types.len() == 1 {
                                if let Some(ty) = ir.types.pop().unwrap() {
                                    Expr::Ident(quote_ident!(ty).into())
                                } else {
                                    Expr::Lit(Lit::Null(Null { span: DUMMY_SP }))
                                }
                            } else {
                                Expr::Array(ArrayLit {
                                    elems: ir
                                        .types
                                        .into_iter()
                                        .map(|ty| {
                                            Some(ExprOrSpread {
                                                expr: Box::new(if let Some(ty) = ty {
                                                    Expr::Ident(quote_ident!(ty).into())
                                                } else {
                                                    Expr::Lit(Lit::Null(Null { span: DUMMY_SP }))
                                                }),
                                                spread: None,
                                            })
                                        })
                                        .collect(),
                                    span: DUMMY_SP,
                                })
                            }),
                        }))),
                        PropOrSpread::Prop(Box::new(Prop::KeyValue(KeyValueProp {
                            key: PropName::Ident(quote_ident!("required")),
                            value: Box::new(Expr::Lit(Lit::Bool(Bool {
                                value: ir.required,
                                span: DUMMY_SP,
                            }))),
                        }))),
                    ];
                    if let Some((_, default)) = defaults.iter().flatten().find(|(name, _)| {
                        name.eq_ignore_span(&prop_name)
                            || if let (
                                PropName::Ident(IdentName { sym: a, .. }),
                                PropName::Str(Str { value: b, .. }),
                            )
                            | (
                                PropName::Str(Str { value: a, .. }),
                                PropName::Ident(IdentName { sym: b, .. }),
                            ) = (&**name, &prop_name)
                            {
                                a == b
                            } else {
                                false
                            }
                    }) {
                        props.push(PropOrSpread::Prop(Box::new(Prop::KeyValue(KeyValueProp {
                            key: PropName::Ident(quote_ident!("default")),
                            value: Box::new(default.clone()),
                        }))));
                    }
                    PropOrSpread::Prop(Box::new(Prop::KeyValue(KeyValueProp {
                        key: prop_name,
                        value: Box::new(Expr::Object(ObjectLit {
                            props,
                            span: DUMMY_SP,
                        })),
                    })))
                })
                .collect(),
            span: DUMMY_SP,
        }
    }

    fn resolve_type_elements(&self, ty: &TsType, props: &mut Vec<RefinedTsTypeElement>) {
        match ty {
            TsType::TsTypeLit(TsTypeLit { members, .. }) => {
                props.extend(members.iter().filter_map(|member| match member {
                    TsTypeElement::TsPropertySignature(prop) => {
                        Some(RefinedTsTypeElement::Property(prop.clone()))
                    }
                    TsTypeElement::TsMethodSignature(method) => {
                        Some(RefinedTsTypeElement::MethodSignature(method.clone()))
                    }
                    TsTypeElement::TsGetterSignature(getter) => {
                        Some(RefinedTsTypeElement::GetterSignature(getter.clone()))
                    }
                    TsTypeElement::TsCallSignatureDecl(call) => {
                        Some(RefinedTsTypeElement::CallSignature(call.clone()))
                    }
                    _ => None,
                }));
            }
            TsType::TsUnionOrIntersectionType(
                TsUnionOrIntersectionType::TsIntersectionType(TsIntersectionType { types, .. })
                | TsUnionOrIntersectionType::TsUnionType(TsUnionType { types, .. }),
            ) => {
                types
                    .iter()
                    .for_each(|ty| self.resolve_type_elements(ty, props));
            }
            TsType::TsTypeRef(TsTypeRef {
                type_name: TsEntityName::Ident(ident),
                type_params,
                span,
                ..
            }) => {
                let key = (ident.sym.clone(), ident.ctxt);
                if let Some(aliased) = self.type_aliases.get(&key) {
                    self.resolve_type_elements(aliased, props);
                } else if let Some(TsInterfaceDecl {
                    extends,
                    body: TsInterfaceBody { body, .. },
                    ..
                }) = self.interfaces.get(&key)
                {
                    props.extend(body.iter().filter_map(|element| match element {
                        TsTypeElement::TsPropertySignature(prop) => {
                            Some(RefinedTsTypeElement::Property(prop.clone()))
                        }
                        TsTypeElement::TsMethodSignature(method) => {
                            Some(RefinedTsTypeElement::MethodSignature(method.clone()))
                        }
                        TsTypeElement::TsGetterSignature(getter) => {
                            Some(RefinedTsTypeElement::GetterSignature(getter.clone()))
                        }
                        TsTypeElement::TsCallSignatureDecl(call) => {
                            Some(RefinedTsTypeElement::CallSignature(call.clone()))
                        }
                        _ => None,
                    }));
                    extends
                        .iter()
                        .filter_map(|parent| parent.expr.as_ident())
                        .for_each(|ident| {
                            self.resolve_type_elements(
                                &TsType::TsTypeRef(TsTypeRef {
                                    type_name: TsEntityName::Ident(ident.clone()),
                                    type_params: None,
                                    span: DUMMY_SP,
                                }),
                                props,
                            )
                        });
                } else if ident.ctxt.has_mark(self.unresolved_mark) {
                    match &*ident.sym {
                        "Partial" => {
                            if let Some(param) = type_params
                                .as_deref()
                                .and_then(|params| params.params.first())
                            {
                                let mut inner_props = vec![];
                                self.resolve_type_elements(param, &mut inner_props);
                                props.extend(inner_props.into_iter().map(|mut prop| {
                                    match &mut prop {
                                        RefinedTsTypeElement::Property(property) => {
                                            property.optional = true;
                                        }
                                        RefinedTsTypeElement::MethodSignature(method) => {
                                            method.optional = true;
                                        }
                                        RefinedTsTypeElement::GetterSignature(..) => {}
                                        RefinedTsTypeElement::CallSignature(..) => {}
                                    }
                                    prop
                                }));
                            }
                        }
                        "Required" => {
                            if let Some(param) = type_params
                                .as_deref()
                                .and_then(|params| params.params.first())
                            {
                                let mut inner_props = vec![];
                                self.resolve_type_elements(param, &mut inner_props);
                                props.extend(inner_props.into_iter().map(|mut prop| {
                                    match &mut prop {
                                        RefinedTsTypeElement::Property(TsPropertySignature {
                                            optional,
                                            ..
                                        })
                                        | RefinedTsTypeElement::MethodSignature(
                                            TsMethodSignature { optional, .. },
                                        ) => {
                                            *optional = false;
                                        }
                                        RefinedTsTypeElement::GetterSignature(..)
                                        | RefinedTsTypeElement::CallSignature(..) => {}
                                    }
                                    prop
                                }));
                            }
                        }
                        "Pick" => {
                            if let Some((object, keys)) = type_params
                                .as_deref()
                                .and_then(|params| params.params.first().zip(params.params.get(1)))
                            {
                                let keys = self.resolve_string_or_union_strings(keys);
                                let mut inner_props = vec![];
                                self.resolve_type_elements(object, &mut inner_props);
                                props.extend(inner_props.into_iter().filter(|prop| match prop {
                                    RefinedTsTypeElement::Property(TsPropertySignature {
                                        key,
                                        ..
                                    })
                                    | RefinedTsTypeElement::MethodSignature(TsMethodSignature {
                                        key,
                                        ..
                                    })
                                    | RefinedTsTypeElement::GetterSignature(TsGetterSignature {
                                        key,
                                        ..
                                    }) => match &**key {
                                        Expr::Ident(ident) => keys.contains(&ident.sym),
                                        Expr::Lit(Lit::Str(str)) => keys.contains(&str.value),
                                        _ => false,
                                    },
                                    RefinedTsTypeElement::CallSignature(..) => false,
                                }));
                            }
                        }
                        "Omit" => {
                            if let Some((object, keys)) = type_params
                                .as_deref()
                                .and_then(|params| params.params.first().zip(params.params.get(1)))
                            {
                                let keys = self.resolve_string_or_union_strings(keys);
                                let mut inner_props = vec![];
                                self.resolve_type_elements(object, &mut inner_props);
                                props.extend(inner_props.into_iter().filter(|prop| match prop {
                                    RefinedTsTypeElement::Property(TsPropertySignature {
                                        key,
                                        ..
                                    })
                                    | RefinedTsTypeElement::MethodSignature(TsMethodSignature {
                                        key,
                                        ..
                                    })
                                    | RefinedTsTypeElement::GetterSignature(TsGetterSignature {
                                        key,
                                        ..
                                    }) => match &**key {
                                        Expr::Ident(ident) => !keys.contains(&ident.sym),
                                        Expr::Lit(Lit::Str(str)) => !keys.contains(&str.value),
                                        _ => true,
                                    },
                                    RefinedTsTypeElement::CallSignature(..) => true,
                                }));
                            }
                        }
                        _ => {
                            HANDLER.with(|handler| {
                                handler.span_err(
                                    *span,
                                    "Unresolvable type reference or unsupported built-in utility type.",
                                );
                            });
                        }
                    }
                } else {
                    HANDLER.with(|handler| {
                        handler.span_err(*span, "Types from other modules can't be resolved.");
                    });
                }
            }
            TsType::TsIndexedAccessType(TsIndexedAccessType {
                obj_type,
                index_type,
                ..
            }) => {
                if let Some(ty) = self.resolve_indexed_access(obj_type, index_type) {
                    self.resolve_type_elements(&ty, props);
                } else {
                    HANDLER.with(|handler| {
                        handler.span_err(ty.span(), "Unresolvable type.");
                    });
                }
            }
            TsType::TsFnOrConstructorType(TsFnOrConstructorType::TsFnType(TsFnType {
                params,
                type_params,
                type_ann,
                ..
            })) => {
                props.push(RefinedTsTypeElement::CallSignature(TsCallSignatureDecl {
                    params: params.clone(),
                    type_ann: Some(type_ann.clone()),
                    type_params: type_params.clone(),
                    span: DUMMY_SP,
                }));
            }
            TsType::TsParenthesizedType(TsParenthesizedType { type_ann, .. })
            | TsType::TsOptionalType(TsOptionalType { type_ann, .. }) => {
                self.resolve_type_elements(type_ann, props);
            }
            _ => HANDLER.with(|handler| {
                handler.span_err(ty.span(), "Unresolvable type.");
            }),
        }
    }

    fn resolve_string_or_union_strings(&self, ty: &TsType) -> Vec<Atom> {
        match ty {
            TsType::TsLitType(TsLitType {
                lit: TsLit::Str(key),
                ..
            }) => vec![key.value.clone()],
            TsType::TsUnionOrIntersectionType(TsUnionOrIntersectionType::TsUnionType(
                TsUnionType { types, .. },
            )) => types
                .iter()
                .fold(Vec::with_capacity(types.len()), |mut strings, ty| {
                    if let TsType::TsLitType(TsLitType {
                        lit: TsLit::Str(str),
                        ..
                    }) = &**ty
                    {
                        strings.push(str.value.clone());
                    } else {
                        strings.extend_from_slice(&self.resolve_string_or_union_strings(ty));
                    }
                    strings
                }),
            TsType::TsTypeRef(TsTypeRef {
                type_name: TsEntityName::Ident(ident),
                ..
            }) => {
                if let Some(aliased) = self.type_aliases.get(&(ident.sym.clone(), ident.ctxt)) {
                    self.resolve_string_or_union_strings(aliased)
                } else if ident.ctxt.has_mark(self.unresolved_mark) {
                    HANDLER.with(|handler| {
                        handler.span_err(
                            ty.span(),
                            "Unresolvable type reference or unsupported built-in utility type.",
                        );
                    });
                    vec![]
                } else {
                    HANDLER.with(|handler| {
                        handler.span_err(ty.span(), "Types from other modules can't be resolved.");
                    });
                    vec![]
                }
            }
            _ => {
                HANDLER
                    .with(|handler| handler.span_err(ty.span(), "Unsupported type as index key."));
                vec![]
            }
        }
    }

    fn resolve_indexed_access(&self, obj: &TsType, index: &TsType) -> Option<TsType> {
        match obj {
            TsType::TsTypeRef(TsTypeRef {
                type_name: TsEntityName::Ident(ident),
                type_params,
                ..
            }) => {
                let key = (ident.sym.clone(), ident.ctxt);
                if let Some(aliased) = self.type_aliases.get(&key) {
                    self.resolve_indexed_access(aliased, index)
                } else if let Some(interface) = self.interfaces.get(&key) {
                    let mut properties = match index {
                        TsType::TsKeywordType(TsKeywordType {
                            kind: TsKeywordTypeKind::TsStringKeyword,
                            ..
                        }) => interface
                            .body
                            .body
                            .iter()
                            .filter_map(|element| match element {
                                TsTypeElement::TsCallSignatureDecl(..)
                                | TsTypeElement::TsConstructSignatureDecl(..)
                                | TsTypeElement::TsSetterSignature(..) => None,
                                TsTypeElement::TsPropertySignature(TsPropertySignature {
                                    key,
                                    type_ann,
                                    ..
                                })
                                | TsTypeElement::TsGetterSignature(TsGetterSignature {
                                    key,
                                    type_ann,
                                    ..
                                }) => {
                                    if matches!(&**key, Expr::Ident(..) | Expr::Lit(Lit::Str(..))) {
                                        type_ann.as_ref().map(|type_ann| type_ann.type_ann.clone())
                                    } else {
                                        None
                                    }
                                }
                                TsTypeElement::TsIndexSignature(TsIndexSignature {
                                    type_ann,
                                    ..
                                }) => type_ann.as_ref().map(|type_ann| type_ann.type_ann.clone()),
                                TsTypeElement::TsMethodSignature(..) => {
                                    Some(Box::new(TsType::TsTypeRef(TsTypeRef {
                                        type_name: TsEntityName::Ident(
                                            quote_ident!("Function").into(),
                                        ),
                                        type_params: None,
                                        span: DUMMY_SP,
                                    })))
                                }
                            })
                            .collect(),
                        TsType::TsLitType(TsLitType {
                            lit: TsLit::Str(..),
                            ..
                        })
                        | TsType::TsUnionOrIntersectionType(
                            TsUnionOrIntersectionType::TsUnionType(..),
                        )
                        | TsType::TsTypeRef(..) => {
                            let keys = self.resolve_string_or_union_strings(index);
                            interface
                                .body
                                .body
                                .iter()
                                .filter_map(|element| match element {
                                    TsTypeElement::TsPropertySignature(TsPropertySignature {
                                        key,
                                        type_ann,
                                        ..
                                    })
                                    | TsTypeElement::TsGetterSignature(TsGetterSignature {
                                        key,
                                        type_ann,
                                        ..
                                    }) => {
                                        if let Expr::Ident(Ident { sym: key, .. })
                                        | Expr::Lit(Lit::Str(Str { value: key, .. })) = &**key
                                        {
                                            if keys.contains(key) {
                                                type_ann
                                                    .as_ref()
                                                    .map(|type_ann| type_ann.type_ann.clone())
                                            } else {
                                                None
                                            }
                                        } else {
                                            None
                                        }
                                    }
                                    TsTypeElement::TsMethodSignature(TsMethodSignature {
                                        key,
                                        ..
                                    }) => {
                                        if let Expr::Ident(Ident { sym: key, .. })
                                        | Expr::Lit(Lit::Str(Str { value: key, .. })) = &**key
                                        {
                                            if keys.contains(key) {
                                                Some(Box::new(TsType::TsTypeRef(TsTypeRef {
                                                    type_name: TsEntityName::Ident(
                                                        quote_ident!("Function").into(),
                                                    ),
                                                    type_params: None,
                                                    span: DUMMY_SP,
                                                })))
                                            } else {
                                                None
                                            }
                                        } else {
                                            None
                                        }
                                    }
                                    TsTypeElement::TsCallSignatureDecl(..)
                                    | TsTypeElement::TsConstructSignatureDecl(..)
                                    | TsTypeElement::TsSetterSignature(..)
                                    | TsTypeElement::TsIndexSignature(..) => None,
                                })
                                .collect()
                        }
                        _ => vec![],
                    };
                    if properties.len() == 1 {
                        Some((*properties.remove(0)).clone())
                    } else {
                        Some(TsType::TsUnionOrIntersectionType(
                            TsUnionOrIntersectionType::TsUnionType(TsUnionType {
                                types: properties,
                                span: DUMMY_SP,
                            }),
                        ))
                    }
                } else if ident.ctxt.has_mark(self.unresolved_mark) {
                    if ident.sym == "Array" {
                        type_params
                            .as_ref()
                            .and_then(|params| params.params.first())
                            .map(|ty| (**ty).clone())
                    } else {
                        None
                    }
                } else {
                    None
                }
            }
            TsType::TsTypeLit(TsTypeLit { members, .. }) => {
                let mut properties = match index {
                    TsType::TsKeywordType(TsKeywordType {
                        kind: TsKeywordTypeKind::TsStringKeyword,
                        ..
                    }) => members
                        .iter()
                        .filter_map(|member| match member {
                            TsTypeElement::TsCallSignatureDecl(..)
                            | TsTypeElement::TsConstructSignatureDecl(..)
                            | TsTypeElement::TsSetterSignature(..) => None,
                            TsTypeElement::TsPropertySignature(TsPropertySignature {
                                key,
                                type_ann,
                                ..
                            })
                            | TsTypeElement::TsGetterSignature(TsGetterSignature {
                                key,
                                type_ann,
                                ..
                            }) => {
                                if matches!(&**key, Expr::Ident(..) | Expr::Lit(Lit::Str(..))) {
                                    type_ann.as_ref().map(|type_ann| type_ann.type_ann.clone())
                                } else {
                                    None
                                }
                            }
                            TsTypeElement::TsIndexSignature(TsIndexSignature {
                                type_ann, ..
                            }) => type_ann.as_ref().map(|type_ann| type_ann.type_ann.clone()),
                            TsTypeElement::TsMethodSignature(..) => {
                                Some(Box::new(TsType::TsTypeRef(TsTypeRef {
                                    type_name: TsEntityName::Ident(quote_ident!("Function").into()),
                                    type_params: None,
                                    span: DUMMY_SP,
                                })))
                            }
                        })
                        .collect(),
                    TsType::TsLitType(TsLitType {
                        lit: TsLit::Str(..),
                        ..
                    })
                    | TsType::TsTypeRef(..)
                    | TsType::TsUnionOrIntersectionType(TsUnionOrIntersectionType::TsUnionType(
                        ..,
                    )) => {
                        let keys = self.resolve_string_or_union_strings(index);
                        members
                            .iter()
                            .filter_map(|member| match member {
                                TsTypeElement::TsPropertySignature(TsPropertySignature {
                                    key,
                                    type_ann,
                                    ..
                                })
                                | TsTypeElement::TsGetterSignature(TsGetterSignature {
                                    key,
                                    type_ann,
                                    ..
                                }) => {
                                    if let Expr::Ident(Ident { sym: key, .. })
                                    | Expr::Lit(Lit::Str(Str { value: key, .. })) = &**key
                                    {
                                        if keys.contains(key) {
                                            type_ann
                                                .as_ref()
                                                .map(|type_ann| type_ann.type_ann.clone())
                                        } else {
                                            None
                                        }
                                    } else {
                                        None
                                    }
                                }
                                TsTypeElement::TsMethodSignature(TsMethodSignature {
                                    key, ..
                                }) => {
                                    if let Expr::Ident(Ident { sym: key, .. })
                                    | Expr::Lit(Lit::Str(Str { value: key, .. })) = &**key
                                    {
                                        if keys.contains(key) {
                                            Some(Box::new(TsType::TsTypeRef(TsTypeRef {
                                                type_name: TsEntityName::Ident(
                                                    quote_ident!("Function").into(),
                                                ),
                                                type_params: None,
                                                span: DUMMY_SP,
                                            })))
                                        } else {
                                            None
                                        }
                                    } else {
                                        None
                                    }
                                }
                                TsTypeElement::TsCallSignatureDecl(..)
                                | TsTypeElement::TsConstructSignatureDecl(..)
                                | TsTypeElement::TsSetterSignature(..)
                                | TsTypeElement::TsIndexSignature(..) => None,
                            })
                            .collect()
                    }
                    _ => vec![],
                };
                if properties.len() == 1 {
                    Some(*properties.remove(0))
                } else {
                    Some(TsType::TsUnionOrIntersectionType(
                        TsUnionOrIntersectionType::TsUnionType(TsUnionType {
                            types: properties,
                            span: DUMMY_SP,
                        }),
                    ))
                }
            }
            TsType::TsArrayType(TsArrayType { elem_type, .. }) => {
                if matches!(
                    index,
                    TsType::TsKeywordType(TsKeywordType {
                        kind: TsKeywordTypeKind::TsNumberKeyword,
                        ..
                    }) | TsType::TsLitType(TsLitType {
                        lit: TsLit::Number(..),
                        ..
                    })
                ) {
                    Some((**elem_type).clone())
                } else {
                    None
                }
            }
            TsType::TsTupleType(TsTupleType { elem_types, .. }) => match index {
                TsType::TsLitType(TsLitType {
                    lit: TsLit::Number(num),
                    ..
                }) => elem_types
                    .get(num.value as usize)
                    .map(|element| (*element.ty).clone()),
                TsType::TsKeywordType(TsKeywordType {
                    kind: TsKeywordTypeKind::TsNumberKeyword,
                    ..
                }) => Some(TsType::TsUnionOrIntersectionType(
                    TsUnionOrIntersectionType::TsUnionType(TsUnionType {
                        types: elem_types
                            .iter()
                            .map(|TsTupleElement { ty, .. }| ty.clone())
                            .collect(),
                        span: DUMMY_SP,
                    }),
                )),
                _ => None,
            },
            _ => None,
        }
    }

    fn infer_runtime_type(&self, ty: &TsType) -> IndexSet<Option<Atom>> {
        let mut runtime_types = IndexSet::with_capacity(1);
        match ty {
            TsType::TsKeywordType(keyword) => match keyword.kind {
                TsKeywordTypeKind::TsStringKeyword => {
                    runtime_types.insert(Some(atom!("String")));
                }
                TsKeywordTypeKind::TsNumberKeyword => {
                    runtime_types.insert(Some(atom!("Number")));
                }
                TsKeywordTypeKind::TsBooleanKeyword => {
                    runtime_types.insert(Some(atom!("Boolean")));
                }
                TsKeywordTypeKind::TsObjectKeyword => {
                    runtime_types.insert(Some(atom!("Object")));
                }
                TsKeywordTypeKind::TsNullKeyword => {
                    runtime_types.insert(None);
                }
                TsKeywordTypeKind::TsBigIntKeyword => {
                    runtime_types.insert(Some(atom!("BigInt")));
                }
                TsKeywordTypeKind::TsSymbolKeyword => {
                    runtime_types.insert(Some(atom!("Symbol")));
                }
                _ => {
                    runtime_types.insert(None);
                }
            },
            TsType::TsTypeLit(TsTypeLit { members, .. }) => {
                members.iter().for_each(|member| {
                    if let TsTypeElement::TsCallSignatureDecl(..)
                    | TsTypeElement::TsConstructSignatureDecl(..) = member
                    {
                        runtime_types.insert(Some(atom!("Function")));
                    } else {
                        runtime_types.insert(Some(atom!("Object")));
                    }
                });
            }
            TsType::TsFnOrConstructorType(..) => {
                runtime_types.insert(Some(atom!("Function")));
            }
            TsType::TsArrayType(..) | TsType::TsTupleType(..) => {
                runtime_types.insert(Some(atom!("Array")));
            }
            TsType::TsLitType(TsLitType { lit, .. }) => match lit {
                TsLit::Str(..) | TsLit::Tpl(..) => {
                    runtime_types.insert(Some(atom!("String")));
                }
                TsLit::Bool(..) => {
                    runtime_types.insert(Some(atom!("Boolean")));
                }
                TsLit::Number(..) | TsLit::BigInt(..) => {
                    runtime_types.insert(Some(atom!("Number")));
                }
            },
            TsType::TsTypeRef(TsTypeRef {
                type_name: TsEntityName::Ident(ident),
                type_params,
                ..
            }) => {
                let key = (ident.sym.clone(), ident.ctxt);
                if let Some(aliased) = self.type_aliases.get(&key) {
                    runtime_types.extend(self.infer_runtime_type(aliased));
                } else if let Some(TsInterfaceDecl {
                    body: TsInterfaceBody { body, .. },
                    ..
                }) = self.interfaces.get(&key)
                {
                    body.iter().for_each(|element| {
                        if let TsTypeElement::TsCallSignatureDecl(..)
                        | TsTypeElement::TsConstructSignatureDecl(..) = element
                        {
                            runtime_types.insert(Some(atom!("Function")));
                        } else {
                            runtime_types.insert(Some(atom!("Object")));
                        }
                    });
                } else {
                    match &*ident.sym {
                        "Array" | "Function" | "Object" | "Set" | "Map" | "WeakSet" | "WeakMap"
                        | "Date" | "Promise" | "Error" | "RegExp" => {
                            runtime_types.insert(Some(ident.sym.clone()));
                        }
                        "Partial" | "Required" | "Readonly" | "Record" | "Pick" | "Omit"
                        | "InstanceType" => {
                            runtime_types.insert(Some(atom!("Object")));
                        }
                        "Uppercase" | "Lowercase" | "Capitalize" | "Uncapitalize" => {
                            runtime_types.insert(Some(atom!("String")));
                        }
                        "Parameters" | "ConstructorParameters" => {
                            runtime_types.insert(Some(atom!("Array")));
                        }
                        "NonNullable" => {
                            if let Some(ty) = type_params
                                .as_ref()
                                .and_then(|type_params| type_params.params.first())
                            {
                                let types = self.infer_runtime_type(ty);
                                runtime_types.extend(types.into_iter().filter(|ty| ty.is_some()));
                            } else {
                                runtime_types.insert(Some(atom!("Object")));
                            }
                        }
                        "Exclude" | "OmitThisParameter" => {
                            if let Some(ty) = type_params
                                .as_ref()
                                .and_then(|type_params| type_params.params.first())
                            {
                                runtime_types.extend(self.infer_runtime_type(ty));
                            } else {
                                runtime_types.insert(Some(atom!("Object")));
                            }
                        }
                        "Extract" => {
                            if let Some(ty) = type_params
                                .as_ref()
                                .and_then(|type_params| type_params.params.get(1))
                            {
                                runtime_types.extend(self.infer_runtime_type(ty));
                            } else {
                                runtime_types.insert(Some(atom!("Object")));
                            }
                        }
                        _ => {
                            runtime_types.insert(Some(atom!("Object")));
                        }
                    }
                }
            }
            TsType::TsParenthesizedType(TsParenthesizedType { type_ann, .. }) => {
                runtime_types.extend(self.infer_runtime_type(type_ann));
            }
            TsType::TsUnionOrIntersectionType(
                TsUnionOrIntersectionType::TsUnionType(TsUnionType { types, .. })
                | TsUnionOrIntersectionType::TsIntersectionType(TsIntersectionType { types, .. }),
            ) => runtime_types.extend(types.iter().flat_map(|ty| self.infer_runtime_type(ty))),
            TsType::TsIndexedAccessType(TsIndexedAccessType {
                obj_type,
                index_type,
                ..
            }) => {
                if let Some(ty) = self.resolve_indexed_access(obj_type, index_type) {
                    runtime_types.extend(self.infer_runtime_type(&ty));
                }
            }
            TsType::TsOptionalType(TsOptionalType { type_ann, .. }) => {
                runtime_types.extend(self.infer_runtime_type(type_ann));
            }
            _ => {
                runtime_types.insert(Some(atom!("Object")));
            }
        };
        runtime_types
    }

    pub(crate) fn extract_emits_type(&self, setup_fn: &ExprOrSpread) -> Option<ArrayLit> {
        let TsTypeAnn {
            type_ann: second_param_type,
            ..
        } = if let ExprOrSpread { expr, spread: None } = setup_fn {
            match &**expr {
                Expr::Arrow(arrow) => match arrow.params.get(1) {
                    Some(Pat::Ident(ident)) => ident.type_ann.as_deref(),
                    Some(Pat::Array(array)) => array.type_ann.as_deref(),
                    Some(Pat::Object(object)) => object.type_ann.as_deref(),
                    _ => return None,
                },
                Expr::Fn(fn_expr) => match fn_expr.function.params.get(1).map(|param| &param.pat) {
                    Some(Pat::Ident(ident)) => ident.type_ann.as_deref(),
                    Some(Pat::Array(array)) => array.type_ann.as_deref(),
                    Some(Pat::Object(object)) => object.type_ann.as_deref(),
                    _ => return None,
                },
                _ => return None,
            }?
        } else {
            return None;
        };

        match &**second_param_type {
            TsType::TsTypeRef(TsTypeRef {
                type_name: TsEntityName::Ident(ident),
                type_params: Some(type_params),
                ..
            }) if ident.sym == "SetupContext" => {
                if let Some(emits_def) = type_params.params.first() {
                    let mut emits = Vec::with_capacity(1);
                    self.resolve_type_elements(emits_def, &mut emits);
                    Some(ArrayLit {
                        elems: emits
                            .into_iter()
                            .flat_map(|emit| match emit {
                                RefinedTsTypeElement::MethodSignature(TsMethodSignature {
                                    key,
                                    ..
                                })
                                | RefinedTsTypeElement::Property(TsPropertySignature {
                                    key, ..
                                }) => match &*key {
                                    Expr::Ident(ident) => vec![ident.sym.clone()],
                                    Expr::Lit(Lit::Str(str)) => vec![str.value.clone()],
                                    _ => vec![],
                                },
                                RefinedTsTypeElement::CallSignature(TsCallSignatureDecl {
                                    params,
                                    ..
                                }) => params
                                    .first()
                                    .and_then(|param| match param {
                                        TsFnParam::Ident(ident) => ident.type_ann.as_deref(),
                                        TsFnParam::Array(array) => array.type_ann.as_deref(),
                                        TsFnParam::Rest(rest) => rest.type_ann.as_deref(),
                                        TsFnParam::Object(object) => object.type_ann.as_deref(),
                                    })
                                    .map(|type_ann| {
                                        self.resolve_string_or_union_strings(&type_ann.type_ann)
                                    })
                                    .unwrap_or_default(),
                                RefinedTsTypeElement::GetterSignature(..) => vec![],
                            })
                            .map(|name| {
                                Some(ExprOrSpread {
                                    expr: Box::new(Expr::Lit(Lit::Str(quote_str!(name)))),
                                    spread: None,
                                })
                            })
                            .collect(),
                        span: DUMMY_SP,
                    })
                } else {
                    None
                }
            }
            _ => None,
        }
    }
}

fn extract_prop_name(expr: Expr, computed: bool) -> PropName {
    match expr {
        Expr::Ident(ident) => PropName::Ident(ident.into()),
        Expr::Lit(Lit::Str(str)) => PropName::Str(str),
        Expr::Lit(Lit::Num(num)) => PropName::Num(num),
        Expr::Lit(Lit::BigInt(bigint)) => PropName::BigInt(bigint),
        _ => {
            if computed {
                PropName::Computed(ComputedPropName {
                    expr: Box::new(expr),
                    span: DUMMY_SP,
                })
            } else {
                HANDLER.with(|handler| handler.span_err(expr.span(), "Unsupported prop key."));
                PropName::Ident(quote_ident!(""))
            }
        }
    }
}

fn try_unwrap_lit_prop_name(prop_name: &PropName) -> Option<Cow<PropName>> {
    match prop_name {
        PropName::Ident(..) | PropName::Str(..) | PropName::Num(..) | PropName::BigInt(..) => {
            Some(Cow::Borrowed(prop_name))
        }
        PropName::Computed(ComputedPropName { expr, .. }) => match &**expr {
            Expr::Ident(ident) => Some(Cow::Owned(PropName::Ident(ident.clone().into()))),
            Expr::Lit(Lit::Str(str)) => Some(Cow::Owned(PropName::Str(str.clone()))),
            Expr::Lit(Lit::Num(num)) => Some(Cow::Owned(PropName::Num(num.clone()))),
            Expr::Lit(Lit::BigInt(bigint)) => Some(Cow::Owned(PropName::BigInt(bigint.clone()))),
            _ => None,
        },
    }
}

fn extract_type_ann_from_pat(pat: &Pat) -> Option<&TsTypeAnn> {
    match pat {
        Pat::Ident(ident) => ident.type_ann.as_deref(),
        Pat::Object(object) => object.type_ann.as_deref(),
        Pat::Array(array) => array.type_ann.as_deref(),
        Pat::Assign(assign) => extract_type_ann_from_pat(&assign.left),
        _ => None,
    }
}

#[cfg(kani)]
#[path = "verif_harness/rt.rs"]
mod verif_rt;
