use bitflags::bitflags;

bitflags! {
    #[derive(PartialEq, Eq)]
    pub struct PatchFlags: i16 {
        const TEXT = 1;
        const CLASS = 1 << 1;
        const STYLE = 1 << 2;
        const PROPS = 1 << 3;
        const FULL_PROPS = 1 << 4;
        const HYDRATE_EVENTS = 1 << 5;
        const STABLE_FRAGMENT = 1 << 6;
        const KEYED_FRAGMENT = 1 << 7;
        const UNKEYED_FRAGMENT = 1 << 8;
        const NEED_PATCH = 1 << 9;
        const DYNAMIC_SLOTS = 1 << 10;
        const HOISTED = -1;
        const BAIL = -2;
    }
}
