use swc_core::{
    common::DUMMY_SP,
    ecma::{
        ast::*,
        utils::{private_ident, quote_ident, quote_str},
    },
};

pub(crate) fn build_slot_helper(helper_name: Ident, is_vnode: Ident) -> FnDecl {
    let arg = private_ident!("s");

    FnDecl {
        ident: helper_name,
        declare: false,
        function: Box::new(Function {
            params: vec![Param {
                span: DUMMY_SP,
                decorators: vec![],
                pat: Pat::Ident(BindingIdent {
                    id: arg.clone(),
                    type_ann: None,
                }),
            }],
            decorators: vec![],
            span: DUMMY_SP,
            body: Some(BlockStmt {
                span: DUMMY_SP,
                stmts: vec![Stmt::Return(ReturnStmt {
                    span: DUMMY_SP,
                    arg: Some(Box::new(Expr::Bin(BinExpr {
                        span: DUMMY_SP,
                        op: op!("||"),
                        left: Box::new(Expr::Bin(BinExpr {
                            span: DUMMY_SP,
                            op: op!("==="),
                            left: Box::new(Expr::Unary(UnaryExpr {
                                span: DUMMY_SP,
                                op: op!("typeof"),
                                arg: Box::new(Expr::Ident(arg.clone())),
                            })),
                            right: Box::new(Expr::Lit(Lit::Str(quote_str!("function")))),
                        })),
                        right: Box::new(Expr::Bin(BinExpr {
                            span: DUMMY_SP,
                            op: op!("&&"),
                            left: Box::new(Expr::Bin(BinExpr {
                                span: DUMMY_SP,
                                op: op!("==="),
                                left: Box::new(Expr::Call(CallExpr {
                                    span: DUMMY_SP,
                                    callee: Callee::Expr(Box::new(Expr::Member(MemberExpr {
                                        span: DUMMY_SP,
                                        obj: Box::new(Expr::Member(MemberExpr {
                                            span: DUMMY_SP,
                                            obj: Box::new(Expr::Object(ObjectLit {
                                                span: DUMMY_SP,
                                                props: vec![],
                                            })),
                                            prop: MemberProp::Ident(quote_ident!("toString")),
                                        })),
                                        prop: MemberProp::Ident(quote_ident!("call")),
                                    }))),
                                    args: vec![ExprOrSpread {
                                        spread: None,
                                        expr: Box::new(Expr::Ident(arg.clone())),
                                    }],
                                    ..Default::default()
                                })),
                                right: Box::new(Expr::Lit(Lit::Str(quote_str!("[object Object]")))),
                            })),
                            right: Box::new(Expr::Unary(UnaryExpr {
                                span: DUMMY_SP,
                                op: op!("!"),
                                arg: Box::new(Expr::Call(CallExpr {
                                    span: DUMMY_SP,
                                    callee: Callee::Expr(Box::new(Expr::Ident(is_vnode))),
                                    args: vec![ExprOrSpread {
                                        spread: None,
                                        expr: Box::new(Expr::Ident(arg)),
                                    }],
                                    ..Default::default()
                                })),
                            })),
                        })),
                    }))),
                })],
                ..Default::default()
            }),
            is_generator: false,
            is_async: false,
            ..Default::default()
        }),
    }
}

pub(crate) fn is_jsx_attr_value_constant(value: &JSXAttrValue) -> bool {
    match value {
        JSXAttrValue::Lit(..) => true,
        JSXAttrValue::JSXExprContainer(JSXExprContainer {
            expr: JSXExpr::Expr(expr),
            ..
        }) => is_constant(expr),
        _ => false,
    }
}

fn is_constant(expr: &Expr) -> bool {
    match expr {
        Expr::Ident(ident) => &ident.sym == "undefined",
        Expr::Array(ArrayLit { elems, .. }) => elems.iter().all(|element| match element {
            Some(ExprOrSpread { spread: None, expr }) => is_constant(expr),
            _ => false,
        }),
        Expr::Object(ObjectLit { props, .. }) => props.iter().all(|prop| {
            if let PropOrSpread::Prop(prop) = prop {
                match &**prop {
                    Prop::KeyValue(KeyValueProp { value, .. }) => is_constant(value),
                    Prop::Shorthand(ident) => &ident.sym == "undefined",
                    _ => false,
                }
            } else {
                false
            }
        }),
        Expr::Lit(..) => true,
        _ => false,
    }
}

pub(crate) fn is_on(attr_name: &str) -> bool {
    match attr_name.as_bytes() {
        [b'o', b'n', c, ..] => !c.is_ascii_lowercase(),
        _ => false,
    }
}

pub(crate) fn dedupe_props(props: Vec<PropOrSpread>) -> Vec<PropOrSpread> {
    let capacity = props.len();
    props.into_iter().fold(
        Vec::with_capacity(capacity),
        |mut defined, prop_or_spread| {
            if let PropOrSpread::Prop(prop) = prop_or_spread {
                if let Prop::KeyValue(KeyValueProp {
                    key:
                        PropName::Str(Str {
                            value: ref name,
                            raw,
                            span,
                        }),
                    value,
                }) = *prop
                {
                    match defined.iter_mut().find_map(|item| match item {
                        PropOrSpread::Prop(prop) => match &mut **prop {
                            Prop::KeyValue(KeyValueProp {
                                key:
                                    PropName::Str(Str {
                                        value: defined_name,
                                        ..
                                    }),
                                value,
                                ..
                            }) if defined_name == name => Some(value),
                            _ => None,
                        },
                        _ => None,
                    }) {
                        Some(defined_value)
                            if name == "class" || name == "style" || name.starts_with("on") =>
                        {
                            if let Expr::Array(ArrayLit { elems, .. }) = &mut **defined_value {
                                elems.push(Some(ExprOrSpread {
                                    spread: None,
                                    expr: value,
                                }));
                            } else {
                                *defined_value = Box::new(Expr::Array(ArrayLit {
                                    span: DUMMY_SP,
                                    elems: vec![
                                        Some(ExprOrSpread {
                                            spread: None,
                                            expr: defined_value.clone(),
                                        }),
                                        Some(ExprOrSpread {
                                            spread: None,
                                            expr: value,
                                        }),
                                    ],
                                }));
                            }
                        }
                        Some(..) => {}
                        None => {
                            defined.push(PropOrSpread::Prop(Box::new(Prop::KeyValue(
                                KeyValueProp {
                                    key: PropName::Str(Str {
                                        span,
                                        value: name.clone(),
                                        raw,
                                    }),
                                    value,
                                },
                            ))));
                        }
                    }
                } else {
                    defined.push(PropOrSpread::Prop(prop));
                }
            } else {
                defined.push(prop_or_spread);
            }
            defined
        },
    )
}

pub(crate) fn decouple_v_models(
    elems: Vec<Option<ExprOrSpread>>,
) -> impl Iterator<Item = JSXAttrOrSpread> {
    elems
        .into_iter()
        .filter_map(|elem| match elem {
            Some(ExprOrSpread { spread: None, expr }) => expr.array(),
            _ => None,
        })
        .map(|ArrayLit { mut elems, .. }| {
            let argument = elems
                .get(1)
                .and_then(|elem| {
                    if let Some(ExprOrSpread { spread: None, expr }) = elem {
                        expr.as_lit()
                    } else {
                        None
                    }
                })
                .and_then(|lit| {
                    if let Lit::Str(Str { value, .. }) = lit {
                        Some(value.clone())
                    } else {
                        None
                    }
                });
            if argument.is_some() {
                elems.remove(1);
            }
            JSXAttrOrSpread::JSXAttr(JSXAttr {
                span: DUMMY_SP,
                name: if let Some(argument) = argument {
                    JSXAttrName::JSXNamespacedName(JSXNamespacedName {
                        span: DUMMY_SP,
                        ns: quote_ident!("v-model"),
                        name: quote_ident!(argument),
                    })
                } else {
                    JSXAttrName::Ident(quote_ident!("v-model"))
                },
                value: Some(JSXAttrValue::JSXExprContainer(JSXExprContainer {
                    span: DUMMY_SP,
                    expr: JSXExpr::Expr(Box::new(Expr::Array(ArrayLit {
                        span: DUMMY_SP,
                        elems,
                    }))),
                })),
            })
        })
}

pub(crate) fn transform_text(text: &str) -> String {
    let jsx_text_value = text.replace('\t', " ");
    let mut jsx_text_lines = jsx_text_value.lines().enumerate().peekable();

    let mut lines = vec![];
    while let Some((index, line)) = jsx_text_lines.next() {
        let line = if index == 0 {
            // first line
            line.trim_end()
        } else if jsx_text_lines.peek().is_none() {
            // last line
            line.trim_start()
        } else {
            line.trim()
        };
        if !line.is_empty() {
            lines.push(line);
        }
    }
    lines.join(" ")
}
