//! Canary: an obligation that MUST fail, behind the same machinery (stubs, build copy, parser).  If this
//! harness ever verifies, the pipeline is vacuous and the whole run is reported as broken (exit 2).
use super::common::*;
use crate::*;
#[kani::proof]
fn canary_must_fail() {
    let a = any_ascii_atom::<3>();
    // false claim: every name that is_on accepts has length 3
    if util::is_on(&a) { assert!(a.len() == 2, "canary: deliberately false postcondition"); }
}
