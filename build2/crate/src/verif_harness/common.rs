//! Shared builders, stubs and models for all harnesses.
use crate::*;
use crate::directive::{Directive, NormalDirective, VModelDirective};
pub use swc_core::common::{comments::{Comment, CommentKind, Comments, NoopComments, SingleThreadedComments}, BytePos, Mark, Span, Spanned, SyntaxContext, DUMMY_SP};
pub use swc_core::ecma::{ast::*, atoms::Atom};
pub use std::borrow::Cow;

/// A-DROP: destructors of AST nodes have no observable effect on the transform's result, so all drop glue is
/// removed (the harness leaks).  Without this CBMC unwinds the mutually recursive drop glue of the AST forever.
pub unsafe fn no_drop<T: ?Sized>(_p: *mut T) {}
pub unsafe fn no_glue<T: ?Sized>(_p: &mut T) {}
/// A-FMT: `format!` is replaced by a model that returns a marker string; generated *names* built with format!
/// (`_createVNode`, `_slot2`, `ns:name`, `xModifiers`, `onUpdate:x`) are therefore not checked by harnesses
/// that carry this stub (those that need the text use `fmt_concat` instead).
pub fn fmt_marker(_a: std::fmt::Arguments<'_>) -> String { String::from("<fmt>") }

pub type V = VueJsxTransformVisitor<NoopComments>;
pub type VC = VueJsxTransformVisitor<SingleThreadedComments>;
pub const UNRESOLVED: Mark = Mark(63);
pub fn unresolved_ctxt() -> SyntaxContext { SyntaxContext::empty().apply_mark(UNRESOLVED) }
pub fn local_ctxt() -> SyntaxContext { SyntaxContext::empty().apply_mark(Mark(62)) }

pub fn visitor(options: Options) -> V { VueJsxTransformVisitor::new(options, UNRESOLVED, None) }
pub fn options(transform_on: bool, optimize: bool, merge_props: bool, enable_object_slots: bool) -> Options {
    Options { transform_on, optimize, custom_element_patterns: Vec::new(), merge_props, enable_object_slots, pragma: None, resolve_type: false }
}
pub fn any_options() -> Options { options(kani::any(), kani::any(), kani::any(), kani::any()) }
pub fn sp(n: u32) -> Span { Span { lo: BytePos(n), hi: BytePos(n) } }
pub fn idn(s: &str) -> IdentName { IdentName { span: DUMMY_SP, sym: Atom::from(s) } }
pub fn ident(s: &str, ctxt: SyntaxContext) -> Ident { Ident { span: sp(1), ctxt, sym: Atom::from(s), optional: false } }
/// an opaque dynamic expression: `this` tagged by a span id
pub fn opaque(n: u32) -> Box<Expr> { Box::new(Expr::This(ThisExpr { span: sp(100 + n) })) }
pub fn is_opaque(e: &Expr, n: u32) -> bool { matches!(e, Expr::This(ThisExpr { span }) if span.lo.0 == 100 + n) }
pub fn strlit(s: &str) -> Box<Expr> { Box::new(Expr::Lit(Lit::Str(Str { span: sp(2), value: Atom::from(s), raw: None }))) }
pub fn is_strlit(e: &Expr, s: &str) -> bool { matches!(e, Expr::Lit(Lit::Str(x)) if &*x.value == s) }
pub fn numlit(v: f64) -> Box<Expr> { Box::new(Expr::Lit(Lit::Num(Number { span: sp(2), value: v, raw: None }))) }
pub fn el(e: Box<Expr>) -> Option<ExprOrSpread> { Some(ExprOrSpread { spread: None, expr: e }) }
pub fn array(elems: Vec<Option<ExprOrSpread>>) -> Box<Expr> { Box::new(Expr::Array(ArrayLit { span: sp(3), elems })) }
pub fn container(e: Box<Expr>) -> JSXAttrValue { JSXAttrValue::JSXExprContainer(JSXExprContainer { span: sp(4), expr: JSXExpr::Expr(e) }) }
pub fn jsx_attr(name: &str, value: Option<JSXAttrValue>) -> JSXAttr { JSXAttr { span: sp(5), name: JSXAttrName::Ident(idn(name)), value } }
pub fn jsx_ns_attr(ns: &str, name: &str, value: Option<JSXAttrValue>) -> JSXAttr {
    JSXAttr { span: sp(5), name: JSXAttrName::JSXNamespacedName(JSXNamespacedName { span: sp(5), ns: idn(ns), name: idn(name) }), value }
}
pub fn attr(name: &str, value: Option<JSXAttrValue>) -> JSXAttrOrSpread { JSXAttrOrSpread::JSXAttr(jsx_attr(name, value)) }
pub fn ns_attr(ns: &str, name: &str, value: Option<JSXAttrValue>) -> JSXAttrOrSpread { JSXAttrOrSpread::JSXAttr(jsx_ns_attr(ns, name, value)) }
pub fn spread(e: Box<Expr>) -> JSXAttrOrSpread { JSXAttrOrSpread::SpreadElement(SpreadElement { dot3_token: sp(6), expr: e }) }
pub fn str_value(s: &str) -> JSXAttrValue { JSXAttrValue::Lit(Lit::Str(Str { span: sp(2), value: Atom::from(s), raw: None })) }
pub fn empty_jsx_element(tag: &str, ctxt: SyntaxContext) -> JSXElement {
    JSXElement { span: sp(7), opening: JSXOpeningElement { name: JSXElementName::Ident(ident(tag, ctxt)), span: sp(7), attrs: Vec::new(), self_closing: true, type_args: None }, children: Vec::new(), closing: None }
}
pub fn jsx_fragment() -> JSXFragment { JSXFragment { span: sp(8), opening: JSXOpeningFragment { span: sp(8) }, children: Vec::new(), closing: JSXClosingFragment { span: sp(8) } } }

/// symbolic ASCII atom of length <= N (N <= 31)
pub fn any_ascii_atom<const N: usize>() -> Atom {
    let len: u8 = kani::any();
    kani::assume((len as usize) <= N);
    let mut buf = [0u8; 31];
    let mut i = 0;
    while i < N {
        let b: u8 = kani::any();
        kani::assume(b < 128);
        if i < len as usize { buf[i] = b; }
        i += 1;
    }
    Atom::from_raw(len, buf)
}
/// symbolic atom of length <= N over a small alphabet
pub fn any_atom_over<const N: usize>(alphabet: &[u8]) -> Atom {
    let len: u8 = kani::any();
    kani::assume((len as usize) <= N);
    let mut buf = [0u8; 31];
    let mut i = 0;
    while i < N {
        let k: u8 = kani::any();
        kani::assume((k as usize) < alphabet.len());
        if i < len as usize { buf[i] = alphabet[k as usize]; }
        i += 1;
    }
    Atom::from_raw(len, buf)
}

// ---- readers over produced object literals ----
pub fn prop_key_str<'a>(p: &'a PropOrSpread) -> Option<&'a str> {
    match p { PropOrSpread::Prop(p) => match &**p { Prop::KeyValue(KeyValueProp { key: PropName::Str(s), .. }) => Some(&*s.value), Prop::KeyValue(KeyValueProp { key: PropName::Ident(s), .. }) => Some(&*s.sym), _ => None }, _ => None }
}
pub fn prop_value<'a>(p: &'a PropOrSpread) -> Option<&'a Expr> {
    match p { PropOrSpread::Prop(p) => match &**p { Prop::KeyValue(KeyValueProp { value, .. }) => Some(&**value), _ => None }, _ => None }
}
pub fn find_prop<'a>(props: &'a [PropOrSpread], key: &str) -> Option<&'a Expr> {
    let mut i = 0;
    while i < props.len() { if prop_key_str(&props[i]) == Some(key) { return prop_value(&props[i]); } i += 1; }
    None
}
pub fn dyn_contains(dp: &Option<indexmap::IndexSet<Cow<'_, str>>>, name: &str) -> bool {
    match dp { Some(s) => { let mut i = 0; while i < s.0.len() { if &*s.0[i] == name { return true; } i += 1; } false } None => false }
}
pub fn dyn_len(dp: &Option<indexmap::IndexSet<Cow<'_, str>>>) -> usize { match dp { Some(s) => s.0.len(), None => 0 } }
/// is `e` a call `callee(args..)` where callee is an identifier whose text is `name`
pub fn call_of<'a>(e: &'a Expr, name: &str) -> Option<&'a Vec<ExprOrSpread>> {
    match e { Expr::Call(CallExpr { callee: Callee::Expr(c), args, .. }) => match &**c { Expr::Ident(i) if &*i.sym == name => Some(args), _ => None }, _ => None }
}
pub fn errors() -> u32 { swc_core::plugin::errors::error_count() }

pub fn is_import<C: Comments>(v: &VueJsxTransformVisitor<C>, e: &Expr, item: &str) -> bool {
    match (e, v.vue_imports.get(item)) { (Expr::Ident(t), Some(i)) => t.ctxt == i.ctxt && t.sym == i.sym, _ => false }
}
pub fn call_parts(e: &Expr) -> Option<(&Expr, &Vec<ExprOrSpread>)> {
    match e { Expr::Call(CallExpr { callee: Callee::Expr(c), args, .. }) => Some((&**c, args)), _ => None }
}

// ---- callee models used as stubs in caller harnesses ----
/// oracle for util::is_jsx_attr_value_constant (contract proved in leaf.rs: true only for render-invariant values)
pub static mut CONST_ORACLE: bool = false;
pub fn const_model(_v: &JSXAttrValue) -> bool { unsafe { CONST_ORACLE } }
/// marker model for util::transform_text: the caller must emit exactly what transform_text returned
pub fn tt_marker(_text: &str) -> String { String::from("<tt>") }
/// model for directive::parse_directive driven by PD_KIND (its own contract is proved in dirs.rs)
pub static mut PD_KIND: u8 = 0;
pub fn pd_model(_jsx_attr: &JSXAttr, is_component: bool) -> Directive {
    let mods = || Some(Expr::Object(ObjectLit { span: sp(30), props: Vec::new() }));
    match unsafe { PD_KIND } {
        0 => Directive::Normal(NormalDirective { name: Atom::from("foo"), argument: None, modifiers: None, value: *opaque(9) }),
        1 => Directive::Html(*opaque(9)),
        2 => Directive::Text(*opaque(9)),
        3 => Directive::VModel(VModelDirective { argument: None, transformed_argument: None, modifiers: None, value: *opaque(9) }),
        4 => Directive::VModel(VModelDirective { argument: Some(*strlit("foo")), transformed_argument: Some(*strlit("foo")), modifiers: mods(), value: *opaque(9) }),
        5 => Directive::VModel(VModelDirective { argument: Some(*opaque(8)), transformed_argument: Some(*opaque(8)), modifiers: mods(), value: *opaque(9) }),
        6 => Directive::VModel(VModelDirective { argument: Some(Expr::Lit(Lit::Null(Null { span: DUMMY_SP }))), transformed_argument: None, modifiers: mods(), value: *opaque(9) }),
        7 => Directive::Slots(Some(opaque(7))),
        _ => Directive::Slots(None),
    }
}
