// GENERATED on every run by /verif/tools/extract.py from /repo/visitor/src/lib.rs (sha256 a4d7fca4d69848c5).  DO NOT EDIT.
// Each method body below is a region of `VueJsxTransformVisitor::transform_attrs`, copied byte for byte between the
// BEGIN/END markers; the lines outside the markers only move the enclosing function's locals in and out.
#![allow(unused_mut, unused_variables, unused_assignments, dead_code, clippy::all)]
use crate::*;

/// the local variables of `transform_attrs` that the fold closure captures, plus the fold accumulator
pub(crate) struct AttrState<'a> {
    pub slots: Option<Box<Expr>>,
    pub dynamic_props: IndexSet<Cow<'a, str>>,
    pub has_ref: bool,
    pub has_class_binding: bool,
    pub has_style_binding: bool,
    pub has_hydration_event_binding: bool,
    pub has_dynamic_keys: bool,
    pub props: Vec<PropOrSpread>,
    pub merge_args: Vec<Expr>,
}
impl<'a> AttrState<'a> {
    /// the state before the first attribute, as declared at the top of `transform_attrs`
    pub(crate) fn initial() -> Self {
        AttrState { slots: None, dynamic_props: IndexSet::new(), has_ref: false, has_class_binding: false, has_style_binding: false,
            has_hydration_event_binding: false, has_dynamic_keys: false, props: Vec::new(), merge_args: Vec::new() }
    }
}
impl<C> VueJsxTransformVisitor<C>
where
    C: Comments,
{
    pub(crate) fn x_directive_arm<'a>(&mut self, st: &mut AttrState<'a>, jsx_attr: &'a JSXAttr, is_component: bool, directives: &mut Vec<NormalDirective>) {
        let mut slots = st.slots.take();
        let mut dynamic_props = mem::take(&mut st.dynamic_props);
        let mut has_ref = st.has_ref;
        let mut has_class_binding = st.has_class_binding;
        let mut has_style_binding = st.has_style_binding;
        let mut has_hydration_event_binding = st.has_hydration_event_binding;
        let mut has_dynamic_keys = st.has_dynamic_keys;
        let mut props = mem::take(&mut st.props);
        let mut merge_args = mem::take(&mut st.merge_args);
        {
// ---- BEGIN verbatim region `directive_arm` ----
                        match parse_directive(jsx_attr, is_component) {
                            Directive::Normal(directive) => directives.push(directive),
                            Directive::Html(expr) => {
                                props.push(PropOrSpread::Prop(Box::new(Prop::KeyValue(
                                    KeyValueProp {
                                        key: PropName::Str(quote_str!("innerHTML")),
                                        value: Box::new(expr),
                                    },
                                ))));
                                dynamic_props.insert("innerHTML".into());
                            }
                            Directive::Text(expr) => {
                                props.push(PropOrSpread::Prop(Box::new(Prop::KeyValue(
                                    KeyValueProp {
                                        key: PropName::Str(quote_str!("textContent")),
                                        value: Box::new(expr),
                                    },
                                ))));
                                dynamic_props.insert("textContent".into());
                            }
                            Directive::VModel(directive) => {
                                if is_component {
                                    props.push(PropOrSpread::Prop(Box::new(Prop::KeyValue(
                                        KeyValueProp {
                                            key: match &directive.argument {
                                                Some(Expr::Lit(Lit::Null(..))) | None => {
                                                    dynamic_props.insert("modelValue".into());
                                                    PropName::Str(quote_str!("modelValue"))
                                                }
                                                Some(Expr::Lit(Lit::Str(Str {
                                                    value, ..
                                                }))) => {
                                                    dynamic_props
                                                        .insert(Cow::from(value.to_string()));
                                                    PropName::Str(quote_str!(&**value))
                                                }
                                                Some(expr) => {
                                                    PropName::Computed(ComputedPropName {
                                                        span: DUMMY_SP,
                                                        expr: Box::new(expr.clone()),
                                                    })
                                                }
                                            },
                                            value: Box::new(directive.value.clone()),
                                        },
                                    ))));
                                    if let Some(modifiers) = directive.modifiers {
                                        props.push(PropOrSpread::Prop(Box::new(Prop::KeyValue(
                                            KeyValueProp {
                                                key: match &directive.argument {
                                                    Some(Expr::Lit(Lit::Null(..))) | None => {
                                                        PropName::Str(quote_str!("modelModifiers"))
                                                    }
                                                    Some(Expr::Lit(Lit::Str(Str {
                                                        value,
                                                        ..
                                                    }))) => PropName::Str(quote_str!(format!(
                                                        "{value}Modifiers"
                                                    ))),
                                                    Some(expr) => {
                                                        PropName::Computed(ComputedPropName {
                                                            span: DUMMY_SP,
                                                            expr: Box::new(Expr::Bin(BinExpr {
                                                                span: DUMMY_SP,
                                                                op: op!(bin, "+"),
                                                                left: Box::new(expr.clone()),
                                                                right: Box::new(Expr::Lit(
                                                                    Lit::Str(quote_str!(
                                                                        "Modifiers"
                                                                    )),
                                                                )),
                                                            })),
                                                        })
                                                    }
                                                },
                                                value: Box::new(modifiers),
                                            },
                                        ))))
                                    }
                                } else {
                                    directives.push(NormalDirective {
                                        name: Atom::from("model"),
                                        argument: directive.transformed_argument,
                                        modifiers: directive.modifiers.clone(),
                                        value: directive.value.clone(),
                                    });
                                }

                                props.push(PropOrSpread::Prop(Box::new(Prop::KeyValue(
                                    KeyValueProp {
                                        key: match directive.argument {
                                            Some(Expr::Lit(Lit::Null(..))) | None => {
                                                dynamic_props.insert("onUpdate:modelValue".into());
                                                PropName::Str(quote_str!("onUpdate:modelValue"))
                                            }
                                            Some(Expr::Lit(Lit::Str(Str { value, .. }))) => {
                                                let name = format!("onUpdate:{value}");
                                                let prop_name = PropName::Str(quote_str!(&*name));
                                                dynamic_props.insert(name.into());
                                                prop_name
                                            }
                                            Some(expr) => {
                                                has_dynamic_keys = true;
                                                PropName::Computed(ComputedPropName {
                                                    span: DUMMY_SP,
                                                    expr: Box::new(Expr::Bin(BinExpr {
                                                        span: DUMMY_SP,
                                                        op: op!(bin, "+"),
                                                        left: Box::new(Expr::Lit(Lit::Str(
                                                            quote_str!("onUpdate"),
                                                        ))),
                                                        right: Box::new(expr),
                                                    })),
                                                })
                                            }
                                        },
                                        value: Box::new(Expr::Arrow(ArrowExpr {
                                            span: DUMMY_SP,
                                            params: vec![Pat::Ident(BindingIdent {
                                                id: quote_ident!("$event").into(),
                                                type_ann: None,
                                            })],
                                            body: Box::new(BlockStmtOrExpr::Expr(Box::new(
                                                Expr::Assign(AssignExpr {
                                                    span: DUMMY_SP,
                                                    op: op!("="),
                                                    left: AssignTarget::Simple(
                                                        SimpleAssignTarget::Paren(ParenExpr {
                                                            span: DUMMY_SP,
                                                            expr: Box::new(directive.value),
                                                        }),
                                                    ),
                                                    right: Box::new(Expr::Ident(
                                                        quote_ident!("$event").into(),
                                                    )),
                                                }),
                                            ))),
                                            is_async: false,
                                            is_generator: false,
                                            ..Default::default()
                                        })),
                                    },
                                ))));
                            }
                            Directive::Slots(expr) => slots = expr,
                        }
                    // ---- END verbatim region `directive_arm` ----
        }
        st.slots = slots;
        st.dynamic_props = dynamic_props;
        st.has_ref = has_ref;
        st.has_class_binding = has_class_binding;
        st.has_style_binding = has_style_binding;
        st.has_hydration_event_binding = has_hydration_event_binding;
        st.has_dynamic_keys = has_dynamic_keys;
        st.props = props;
        st.merge_args = merge_args;
    }

    pub(crate) fn x_plain_arm<'a>(&mut self, st: &mut AttrState<'a>, jsx_attr: &'a JSXAttr, is_component: bool) {
        let mut slots = st.slots.take();
        let mut dynamic_props = mem::take(&mut st.dynamic_props);
        let mut has_ref = st.has_ref;
        let mut has_class_binding = st.has_class_binding;
        let mut has_style_binding = st.has_style_binding;
        let mut has_hydration_event_binding = st.has_hydration_event_binding;
        let mut has_dynamic_keys = st.has_dynamic_keys;
        let mut props = mem::take(&mut st.props);
        let mut merge_args = mem::take(&mut st.merge_args);
        {
// ---- BEGIN verbatim region `plain_arm` ----
                        let attr_name = match &jsx_attr.name {
                            JSXAttrName::Ident(ident) => Cow::from(&*ident.sym),
                            JSXAttrName::JSXNamespacedName(name) => {
                                Cow::from(format!("{}:{}", name.ns.sym, name.name.sym))
                            }
                        };
                        let attr_value = jsx_attr
                            .value
                            .as_ref()
                            .map(|value| match value {
                                JSXAttrValue::Lit(Lit::Str(str)) => Box::new(Expr::Lit(Lit::Str(
                                    quote_str!(util::transform_text(&str.value)),
                                ))),
                                JSXAttrValue::Lit(..) => {
                                    unreachable!("JSX attribute value literal must be string")
                                }
                                JSXAttrValue::JSXExprContainer(JSXExprContainer {
                                    expr: JSXExpr::Expr(expr),
                                    ..
                                }) => expr.clone(),
                                JSXAttrValue::JSXExprContainer(JSXExprContainer {
                                    expr: JSXExpr::JSXEmptyExpr(expr),
                                    ..
                                }) => Box::new(Expr::JSXEmpty(*expr)),
                                JSXAttrValue::JSXElement(element) => {
                                    Box::new(self.transform_jsx_element(element))
                                }
                                JSXAttrValue::JSXFragment(fragment) => {
                                    Box::new(self.transform_jsx_fragment(fragment))
                                }
                            })
                            .unwrap_or_else(|| {
                                Box::new(Expr::Lit(Lit::Bool(Bool {
                                    span: DUMMY_SP,
                                    value: true,
                                })))
                            });

                        if attr_name == "ref" {
                            has_ref = true;
                        } else if !jsx_attr
                            .value
                            .as_ref()
                            .map(util::is_jsx_attr_value_constant)
                            .unwrap_or_default()
                        {
                            if !is_component && util::is_on(&attr_name)
                                // omit the flag for click handlers becaues hydration gives click
                                // dedicated fast path.
                                && !attr_name.eq_ignore_ascii_case("onclick")
                                // omit v-model handlers
                                && attr_name != "onUpdate:modelValue"
                            {
                                has_hydration_event_binding = true;
                            }
                            match &*attr_name {
                                "class" if !is_component => has_class_binding = true,
                                "style" if !is_component => has_style_binding = true,
                                "key" | "on" | "ref" => {}
                                // merged through the `transformOn` helper below, not a prop of that name
                                "nativeOn" if self.options.transform_on => {}
                                _ => {
                                    dynamic_props.insert(attr_name.clone());
                                }
                            }
                        }

                        if self.options.transform_on
                            && (attr_name == "on" || attr_name == "nativeOn")
                        {
                            merge_args.push(Expr::Call(CallExpr {
                                span: DUMMY_SP,
                                callee: Callee::Expr(Box::new(Expr::Ident(
                                    self.transform_on_helper
                                        .get_or_insert_with(|| private_ident!("_transformOn"))
                                        .clone(),
                                ))),
                                args: vec![ExprOrSpread {
                                    spread: None,
                                    expr: attr_value,
                                }],
                                ..Default::default()
                            }));
                        } else {
                            props.push(PropOrSpread::Prop(Box::new(Prop::KeyValue(
                                KeyValueProp {
                                    key: PropName::Str(quote_str!(attr_name)),
                                    value: attr_value,
                                },
                            ))));
                        }
                    // ---- END verbatim region `plain_arm` ----
        }
        st.slots = slots;
        st.dynamic_props = dynamic_props;
        st.has_ref = has_ref;
        st.has_class_binding = has_class_binding;
        st.has_style_binding = has_style_binding;
        st.has_hydration_event_binding = has_hydration_event_binding;
        st.has_dynamic_keys = has_dynamic_keys;
        st.props = props;
        st.merge_args = merge_args;
    }

    pub(crate) fn x_spread_arm<'a>(&mut self, st: &mut AttrState<'a>, spread: &'a SpreadElement) {
        let mut slots = st.slots.take();
        let mut dynamic_props = mem::take(&mut st.dynamic_props);
        let mut has_ref = st.has_ref;
        let mut has_class_binding = st.has_class_binding;
        let mut has_style_binding = st.has_style_binding;
        let mut has_hydration_event_binding = st.has_hydration_event_binding;
        let mut has_dynamic_keys = st.has_dynamic_keys;
        let mut props = mem::take(&mut st.props);
        let mut merge_args = mem::take(&mut st.merge_args);
        {
// ---- BEGIN verbatim region `spread_arm` ----
                        has_dynamic_keys = true;

                        if !props.is_empty() && self.options.merge_props {
                            merge_args.push(Expr::Object(ObjectLit {
                                span: DUMMY_SP,
                                props: util::dedupe_props(mem::take(&mut props)),
                            }));
                        }

                        if let Expr::Object(object) = &*spread.expr {
                            if self.options.merge_props {
                                merge_args.push(Expr::Object(object.clone()));
                            } else {
                                props.extend_from_slice(&object.props);
                            }
                        } else if self.options.merge_props {
                            merge_args.push(*spread.expr.clone());
                        } else {
                            props.push(PropOrSpread::Spread(spread.clone()));
                        }
                    // ---- END verbatim region `spread_arm` ----
        }
        st.slots = slots;
        st.dynamic_props = dynamic_props;
        st.has_ref = has_ref;
        st.has_class_binding = has_class_binding;
        st.has_style_binding = has_style_binding;
        st.has_hydration_event_binding = has_hydration_event_binding;
        st.has_dynamic_keys = has_dynamic_keys;
        st.props = props;
        st.merge_args = merge_args;
    }

    pub(crate) fn x_assemble(&mut self, mut props: Vec<PropOrSpread>, mut merge_args: Vec<Expr>) -> Expr {
// ---- BEGIN verbatim region `assemble` ----
        let expr = if !merge_args.is_empty() {
            if !props.is_empty() {
                merge_args.push(Expr::Object(ObjectLit {
                    span: DUMMY_SP,
                    props: if self.options.merge_props {
                        util::dedupe_props(mem::take(&mut props))
                    } else {
                        mem::take(&mut props)
                    },
                }));
            }
            match merge_args.as_slice() {
                [expr] => expr.clone(),
                _ => Expr::Call(CallExpr {
                    span: DUMMY_SP,
                    callee: Callee::Expr(Box::new(Expr::Ident(self.import_from_vue("mergeProps")))),
                    args: merge_args
                        .into_iter()
                        .map(|expr| ExprOrSpread {
                            spread: None,
                            expr: Box::new(expr),
                        })
                        .collect(),
                    ..Default::default()
                }),
            }
        } else if !props.is_empty() {
            if let [PropOrSpread::Spread(SpreadElement { expr, .. })] = props.as_slice() {
                *expr.clone()
            } else {
                Expr::Object(ObjectLit {
                    span: DUMMY_SP,
                    props: if self.options.merge_props {
                        util::dedupe_props(props)
                    } else {
                        props
                    },
                })
            }
        } else {
            Expr::Lit(Lit::Null(Null { span: DUMMY_SP }))
        };

// ---- END verbatim region `assemble` ----
        expr
    }

    pub(crate) fn x_finalize(has_dynamic_keys: bool, has_class_binding: bool, has_style_binding: bool, has_hydration_event_binding: bool, has_ref: bool,
        dynamic_props: &IndexSet<Cow<'_, str>>, directives: &Vec<NormalDirective>) -> PatchFlags {
// ---- BEGIN verbatim region `finalize` ----
        let mut patch_flags = PatchFlags::empty();
        if has_dynamic_keys {
            patch_flags.insert(PatchFlags::FULL_PROPS);
        } else {
            if has_class_binding {
                patch_flags.insert(PatchFlags::CLASS);
            }
            if has_style_binding {
                patch_flags.insert(PatchFlags::STYLE);
            }
            if !dynamic_props.is_empty() {
                patch_flags.insert(PatchFlags::PROPS);
            }
            if has_hydration_event_binding {
                patch_flags.insert(PatchFlags::HYDRATE_EVENTS);
            }
        }
        if (patch_flags.is_empty() || patch_flags == PatchFlags::HYDRATE_EVENTS)
            && (has_ref || !directives.is_empty())
        {
            patch_flags.insert(PatchFlags::NEED_PATCH);
        }

// ---- END verbatim region `finalize` ----
        patch_flags
    }
}
