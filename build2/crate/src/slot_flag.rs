#[derive(Clone, Debug)]
pub enum SlotFlag {
    Stable = 1,
    Dynamic = 2,
}
