"""Registry of verification units: which real functions are under contract, by which harnesses, for which
properties, complete or bounded, in which tier.  /verif/check reads only this."""

MEMCMP = {"memcmp.0": 33}


def U(uid, functions, harnesses, props, completeness="complete", domain="", tier="quick", timeout=900, mem_gb=8,
      unwindset=None, replay=None, backend="kani", assumes=()):
    return dict(id=uid, functions=functions, harnesses=harnesses, props=props, completeness=completeness, domain=domain,
                tier=tier, timeout=timeout, mem_gb=mem_gb, unwindset=dict(MEMCMP if unwindset is None else unwindset),
                replay=replay, backend=backend, assumes=list(assumes))


A_DROP = "A-DROP: destructors have no observable effect (ALL drop glue stubbed to no-ops; the harness leaks). False for std guard types: Vec::extend_from_slice (SetLenOnDrop) is replaced by verif_models::extend_from_slice_model in every harness (self-check harness guard_model_selfcheck); Vec::extend / resize / exact-size collect from slice iterators, sort guards, Drain/Splice are not reached by the units"
A_CLONE = "A-CLONE: Clone of stand-in AST nodes is a bitwise copy (sound because nothing is dropped and cloned nodes are never mutated in place by the visitor; site audit in DESIGN.md 3.4)"
A_STANDIN = "A-STANDIN: swc_core / css_dataset / regex / indexmap / fnv are replaced by the stand-in crates under /verif/standin (assumed contracts on dependencies; names checked by tools/conformance.py)"
A_FMT = "A-FMT: format! replaced by a marker model in harnesses that carry the stub (generated identifier texts not checked there)"
A_EXTRACT = "A-GLUE: the arm bodies / assembly / finalisation of transform_attrs are verified as extracted regions (tools/extract.py, verbatim); that the fold applies the arms to every attribute in order from the declared initial state is checked syntactically by the extractor and, bounded, by the whole-function units of the thorough tier"
A_PD = "callee contract: directive::parse_directive replaced by its model (own contract: units U-dir*)"
A_TT = "callee contract: util::transform_text replaced by a marker model (own contract: unit U-text)"
A_CONST = "callee contract: util::is_jsx_attr_value_constant replaced by an oracle (own contract: unit U-isconst: true only for render-invariant values)"

ISCONST = ["isconst_k0_w0", "isconst_k1_w0", "isconst_k2_w0", "isconst_k3_w0", "isconst_k4_w0", "isconst_k5_w0", "isconst_k6_w0",
           "isconst_k0_w1", "isconst_k1_w1", "isconst_k3_w1", "isconst_k5_w1", "isconst_k0_w2", "isconst_k1_w2", "isconst_k4_w2",
           "isconst_k0_w3", "isconst_k1_w3", "isconst_k2_w3", "isconst_k6_w3", "isconst_k3_w4", "isconst_k3_w5", "isconst_value_kinds"]
ISCONST_Q = ["isconst_k0_w0", "isconst_k1_w0", "isconst_k2_w0", "isconst_k3_w0", "isconst_k4_w0", "isconst_k5_w0", "isconst_k6_w0", "isconst_k0_w1", "isconst_k1_w1", "isconst_k3_w1", "isconst_k5_w1",
             "isconst_k0_w2", "isconst_k1_w2", "isconst_k4_w2", "isconst_k3_w4", "isconst_k3_w5", "isconst_value_kinds"]
PLAIN = ["attr_class_dyn", "attr_style_dyn", "attr_key_dyn", "attr_ref_dyn", "attr_on_dyn", "attr_nativeon_dyn", "attr_onclick_camel_dyn",
         "attr_onclick_lower_dyn", "attr_onfoo_dyn", "attr_onupdate_dyn", "attr_id_dyn", "attr_id_bool", "attr_id_str", "attr_class_str", "attr_onfoo_bool"]
DARM = ["darm_normal", "darm_html", "darm_text", "darm_vmodel_plain", "darm_vmodel_strarg", "darm_vmodel_computed", "darm_vmodel_nullarg", "darm_slots_some", "darm_slots_none"]
TAGS = ["tag_div", "tag_svg", "tag_fragment", "tag_keepalive", "tag_foo_comp", "tag_xel_nopattern", "tag_xel_pattern", "tag_lower_unknown",
        "tag_upper_div", "tag_a", "tag_div_pattern", "tag_foo_pattern", "tag_camel_svg"]

UNITS = [
    U("U-ison", ["util::is_on"], ["ison_spec"], ["C13", "C01"], domain="all ASCII strings of length <= 4 (the function reads <= 3 bytes): complete", mem_gb=4, timeout=300),
    U("U-contract-leaf", ["util::is_on", "directive::is_directive"], ["contract_is_on", "contract_is_directive"], ["C13", "C01", "C04"],
      domain="Kani function contracts (#[kani::ensures] annotated in place on the build copy, discharged by #[kani::proof_for_contract]): is_on / is_directive == their spec functions for all ASCII names of length <= 4 / <= 3", mem_gb=4, timeout=300),
    U("U-step-plain-modular", ["VueJsxTransformVisitor::transform_attrs[plain arm]"], ["step_listener_modular"], ["C13"],
      domain="plain arm for a listener name, with util::is_on replaced by its VERIFIED CONTRACT (#[kani::stub_verified]): the caller is checked against the callee's contract, not its body", mem_gb=6, timeout=600,
      unwindset={"memcmp.0": 21}, assumes=[A_DROP, A_CLONE, A_TT, A_CONST, A_FMT, A_EXTRACT]),
    U("U-isdir", ["directive::is_directive"], ["isdir_spec_plain", "isdir_spec_namespaced"], ["C04"], domain="all ASCII names of length <= 3 x {plain, namespaced}: complete (reads <= 2 bytes)", mem_gb=4, timeout=300),
    U("U-const", ["patch_flags::PatchFlags", "slot_flag::SlotFlag"], ["const_patch_flags"], ["C13"], domain="constants: complete", mem_gb=4, timeout=300),
    U("U-defaults", ["options::Options::default"], ["options_default"], ["C14"], domain="no input: complete", mem_gb=4, timeout=300, assumes=[A_DROP]),
    U("U-isconst", ["util::is_jsx_attr_value_constant", "util::is_constant"], ISCONST_Q, ["C13"], completeness="bounded",
      domain="7 leaf kinds bare and in array / two-element array / spread wrappers, nesting depth <= 2 (the object-literal wrapper is thorough-tier)", mem_gb=6, timeout=900, assumes=[A_DROP, A_CLONE]),
    U("U-isconst-more", ["util::is_jsx_attr_value_constant", "util::is_constant"], [h for h in ISCONST if h not in ISCONST_Q], ["C13"], completeness="bounded", tier="thorough",
      domain="4 leaf kinds inside an object literal (5 min and > 16 GB per harness)", mem_gb=28, timeout=2400, assumes=[A_DROP, A_CLONE]),
    U("U-tag", ["VueJsxTransformVisitor::transform_tag", "VueJsxTransformVisitor::is_component", "VueJsxTransformVisitor::import_from_vue"],
      TAGS + ["tag_member", "tag_member_fragment", "tag_member_keepalive", "tag_member_fragment_alias"], ["C01", "C02", "C03", "C08"], domain="9 tag names x {no pattern, ^x-} x symbolic {unresolved, 4 options}", mem_gb=6, timeout=900, assumes=[A_DROP, A_CLONE, A_FMT]),
    U("U-tag-fragment", ["VueJsxTransformVisitor::is_component"], ["tag_fragment_not_component"], ["C02", "C03", "C10"], domain="`Fragment` x symbolic history", mem_gb=8, assumes=[A_DROP, A_FMT]),
    U("U-tag-frame", ["VueJsxTransformVisitor::is_component"], ["tagframe_alias_text", "tagframe_foo", "tagframe_div"], ["C10"], domain="2-safety: two visitor states that differ in the Fragment import", mem_gb=8, assumes=[A_DROP, A_FMT]),
    U("U-tag-two-bindings", ["VueJsxTransformVisitor::transform_tag"], ["tag_same_name_unresolved_then_bound", "tag_same_name_bound_then_unresolved"], ["C10", "C01"], domain="the same tag name with two different bindings in one module, either order x symbolic options", mem_gb=16, timeout=1500, assumes=[A_DROP, A_FMT]),
    U("U-tag-nojsx", ["VueJsxTransformVisitor::transform_tag"], ["tag_namespaced_no_jsx_leak"], ["C07"], domain="namespaced tag", mem_gb=8, assumes=[A_DROP, A_FMT]),
    U("U-attrs-plain-whole", ["VueJsxTransformVisitor::transform_attrs", "util::is_on", "util::dedupe_props", "directive::is_directive"], ["attr_class_dyn", "attr_id_dyn"],
      ["C13", "C01"], completeness="bounded", domain="the WHOLE transform_attrs (fold glue + arms + assembly + finalisation) on one attribute: {class, id} dynamic x symbolic {host kind, constness, 4 options}; 10 min and > 20 GB per harness",
      mem_gb=30, timeout=2400, tier="thorough", assumes=[A_DROP, A_CLONE, A_PD, A_TT, A_CONST, A_FMT]),
        U("U-attrs-darm", ["VueJsxTransformVisitor::transform_attrs"], DARM, ["C04", "C05", "C13", "C03"], completeness="bounded",
      domain="one directive attribute: 9 parse results (normal, html, text, 4 v-model argument forms, 2 v-slots) x symbolic {host kind, options}", mem_gb=22, timeout=1800, tier="out_of_reach", assumes=[A_DROP, A_CLONE, A_PD, A_FMT]),
]

DIRSPELL = ["dirspell_kebab", "dirspell_camel", "dirspell_camel_inner_upper", "dirspell_one_modifier", "dirspell_two_modifiers", "dirspell_ns_arg",
            "dirspell_ns_arg_modifier", "dirspell_camel_ns", "dirspell_show", "dirspell_kebab_inner", "dirspell_name_starts_with_v", "dirspell_ns_name_starts_with_v", "dirspell_suffix_with_array_form", "dirspell_digit_modifier", "dirspell_empty_name", "dirspell_multibyte_name"]
DIRVAL = ["dirval_v", "dirval_v_arg", "dirval_v_mods", "dirval_v_arg_mods", "dirval_empty_array", "dirval_hole", "dirval_absent", "dirval_string", "dirval_nonident_modifier"]
DIRSPELL_MODS = ["dirspell_one_modifier", "dirspell_two_modifiers", "dirspell_ns_arg_modifier", "dirspell_suffix_with_array_form", "dirspell_digit_modifier", "dirspell_empty_name"]
DIRVAL_SLOW = ["dirval_v_mods", "dirval_v_arg_mods", "dirval_nonident_modifier"]
VMODEL_SLOW = ["vmodel_array_mods", "vmodel_array_arg_mods", "vmodel_suffix_modifier", "vmodel_ns_arg_modifier", "vmodel_ns_arg_modifier_array_form"]
VHTML = ["vhtml_absent", "vhtml_str", "vhtml_expr", "vhtml_array", "vhtml_empty", "vhtml_element", "vhtml_fragment",
         "vtext_absent", "vtext_str", "vtext_expr", "vtext_array", "vtext_empty", "vtext_element", "vtext_fragment"]
VMODEL = ["vmodel_plain", "vmodel_suffix_modifier", "vmodel_ns_arg", "vmodel_ns_arg_modifier", "vmodel_array_strarg", "vmodel_array_computed", "vmodel_array_mods", "vmodel_array_arg_mods", "vmodel_camel", "vmodel_ns_arg_array_form", "vmodel_ns_arg_modifier_array_form"]
RESOLVE = ["resolve_show", "resolve_custom", "resolve_model_input_notype", "resolve_model_input_checkbox", "resolve_model_input_radio", "resolve_model_input_text",
           "resolve_model_input_dynamic", "resolve_model_input_type_after_other", "resolve_model_select", "resolve_model_select_with_type", "resolve_model_textarea", "resolve_model_other_element"]
PRAGMAC = ["pragmac_plain", "pragmac_jsdoc", "pragmac_custom", "pragmac_unrelated", "pragmac_importsource", "pragmac_frag", "pragmac_runtime", "pragmac_noname", "pragmac_noname_star", "pragmac_trailing_words", "pragmac_multiline"]
IMPORTS = ["import_vue_named", "import_vue_named_second", "import_vue_aliased", "import_vue_renamed_other", "import_other_module", "import_vue_namespace", "import_vue_default", "import_vue_without"]
INJECT = ["inject_no_options", "inject_other_key", "inject_same_ident_key", "inject_same_string_key", "inject_nonliteral_options", "inject_spread_args", "inject_literal_with_spread", "inject_shorthand_key"]
RTB = ["rtb_date", "rtb_map", "rtb_set", "rtb_promise", "rtb_regexp", "rtb_error", "rtb_array", "rtb_function", "rtb_weakmap", "rtb_weakset", "rtb_object", "rtb_uppercase",
       "rtb_lowercase", "rtb_capitalize", "rtb_uncapitalize", "rtb_parameters", "rtb_ctor_parameters", "rtb_record", "rtb_partial", "rtb_readonly"]
D12 = {"memcmp.0": 33}
UNITS += [
    U("U-dirspell", ["directive::parse_directive"], [h for h in DIRSPELL if h not in DIRSPELL_MODS], ["C04", "C08"], completeness="bounded",
      domain="10 concrete directive spellings without modifiers (kebab, camel, inner capitals, names starting with `v`, multi-byte first letter, namespaced arg) x symbolic host kind", mem_gb=8, timeout=1200, unwindset={"memcmp.0": 12}, assumes=[A_DROP, A_CLONE]),
    U("U-dirspell-mods", ["directive::parse_directive", "directive::transform_modifiers"], DIRSPELL_MODS, ["C04", "C07", "C08"], completeness="bounded", tier="out_of_reach",
      domain="6 spellings with `_mod` suffixes (1-2 modifiers, with arg, with the [v] form, digit-leading modifier, empty name): std BTreeSet construction/iteration on symbolic data (CBMC tarpit: > 8 GB / > 20 min each)",
      mem_gb=24, timeout=5400, unwindset={"memcmp.0": 12}, assumes=[A_DROP, A_CLONE]),
    U("U-dirval", ["directive::parse_directive", "directive::transform_modifiers"], [h for h in DIRVAL if h not in DIRVAL_SLOW], ["C04", "C07", "C08"], completeness="bounded",
      domain="6 value forms ([v], [v,arg], [], hole, absent, string)", mem_gb=8, timeout=1200, unwindset={"memcmp.0": 12}, assumes=[A_DROP, A_CLONE]),
    U("U-dirval-mods", ["directive::parse_directive", "directive::parse_modifiers", "directive::transform_modifiers"], DIRVAL_SLOW, ["C04", "C07", "C08"], completeness="bounded", tier="out_of_reach",
      domain="3 value forms with a modifier list ([v,[mods]], [v,arg,[mods]], non-identifier modifier): std BTreeSet::from_iter sorts (CBMC tarpit)", mem_gb=16, timeout=3600, unwindset={"memcmp.0": 12}, assumes=[A_DROP, A_CLONE]),
    U("U-vhtml", ["directive::parse_v_html_directive", "directive::parse_v_text_directive"], VHTML, ["C04", "C08"],
      domain="every JSXAttrValue kind (absent, string, expression, array form, empty container, element, fragment) x {v-html, v-text}: complete over value kinds", mem_gb=8, timeout=900, assumes=[A_DROP, A_CLONE]),
    U("U-vmodel-parse", ["directive::parse_v_model_directive"], [h for h in VMODEL if h not in VMODEL_SLOW], ["C05"], completeness="bounded",
      domain="6 v-model spellings/value forms without modifiers (plain, camel, `:arg`, `:arg` with the [v] form, [v, \"arg\"], [v, computed]) x symbolic host kind", mem_gb=8, timeout=1200, unwindset={"memcmp.0": 12}, assumes=[A_DROP, A_CLONE]),
    U("U-vmodel-parse-mods", ["directive::parse_v_model_directive", "directive::parse_modifiers"], VMODEL_SLOW, ["C05"], completeness="bounded", tier="out_of_reach",
      domain="5 v-model forms with modifiers (suffix / list): std BTreeSet on symbolic data", mem_gb=24, timeout=5400, unwindset={"memcmp.0": 12}, assumes=[A_DROP, A_CLONE]),
    U("U-resolvedir", ["VueJsxTransformVisitor::resolve_directive"], RESOLVE, ["C04", "C05"],
      domain="directive {show, model, other} x host {input, select, textarea, other} x type attribute {absent, checkbox, radio, other string, dynamic, after another attribute} x symbolic options", mem_gb=8, timeout=900, assumes=[A_DROP, A_CLONE, A_FMT]),
    U("U-pragma-prec", ["VueJsxTransformVisitor::get_pragma"], ["pragma_none", "pragma_option", "pragma_comment", "pragma_comment_over_option"], ["C15"],
      domain="{comment pragma, option pragma} present/absent x symbolic options: complete", mem_gb=8, timeout=900, assumes=[A_DROP, A_FMT]),
    U("U-pragma-comment", ["VueJsxTransformVisitor::search_jsx_pragma"], PRAGMAC, ["C15", "C07"], completeness="bounded",
      domain="11 concrete comment texts (plain, JSDoc star, multi-line, other @jsx* tags, no name, trailing words)", mem_gb=10, timeout=1200, assumes=[A_DROP]),
    U("U-emptytext", ["VueJsxTransformVisitor::transform_jsx_text"], ["jsx_text_empty_iff_dropped"], ["C02"], domain="symbolic emptiness of the cleaned text: complete", mem_gb=8, assumes=[A_DROP, A_FMT, A_TT]),
    U("U-isdc", ["VueJsxTransformVisitor::is_define_component_call", "VueJsxTransformVisitor::visit_mut_import_decl"], ["define_component_identification"] + IMPORTS, ["C20"],
      domain="5 callee shapes x recorded/not; 8 import declaration shapes", mem_gb=8, assumes=[A_DROP, A_CLONE]),
    U("U-inject", ["inject_define_component_option"], ["inject_no_options", "inject_spread_args"], ["C20"], completeness="bounded", domain="no options argument; spread argument list", mem_gb=8, timeout=900, assumes=[A_DROP, A_CLONE]),
    U("U-inject-literal", ["inject_define_component_option"], [h for h in INJECT if h not in ("inject_no_options", "inject_spread_args")], ["C20"], completeness="bounded", tier="out_of_reach",
      domain="6 options-literal shapes (other key, same key as identifier / string / shorthand, non-literal options, literal containing a spread); Vec::insert at a computed position makes the SAT instance large", mem_gb=24, timeout=5400, assumes=[A_DROP, A_CLONE]),
    U("U-rttable", ["resolve_type::infer_runtime_type"], ["rt_keywords", "rt_literals"] + RTB, ["C17"], completeness="bounded",
      domain="all keyword kinds of the table, literal kinds, 20 built-in names", mem_gb=8, timeout=1200, assumes=[A_DROP, A_CLONE]),
    U("U-rttable-more", ["resolve_type::infer_runtime_type"], ["rt_structural"], ["C17"], completeness="bounded", tier="out_of_reach",
      domain="12 more built-in names, fn/array/tuple/paren/union/NonNullable one level", mem_gb=10, timeout=2400, assumes=[A_DROP, A_CLONE]),
    U("U-rt-emission", ["resolve_type::extract_props_type", "resolve_type::build_props_type", "resolve_type::resolve_indexed_access"], ["props_type_emission_nullable_union", "rt_indexed_access"], ["C17"], completeness="bounded", tier="out_of_reach",
      domain="`string | null` emission through extract_props_type; array / tuple indexed access", mem_gb=20, timeout=3600, assumes=[A_DROP, A_CLONE, A_FMT]),
    U("U-rt-bigint", ["resolve_type::infer_runtime_type"], ["rt_bigint_literal"], ["C17"], domain="bigint literal type", mem_gb=8, assumes=[A_DROP]),
]

STEP_PLAIN = ["step_ref", "step_class", "step_style", "step_key", "step_on", "step_nativeon", "step_onclick_camel", "step_onclick_lower", "step_onupdate_mv", "step_listener", "step_other",
              "step_other_valueless", "step_other_string", "step_class_string", "step_listener_valueless", "step_ref_string"]
UNITS += [
    U("U-step-plain", ["VueJsxTransformVisitor::transform_attrs[plain arm]", "util::is_on"], STEP_PLAIN, ["C13", "C01"],
      domain="plain-attribute arm from an ARBITRARY analysis state (5 symbolic booleans): 10 name classes x {dynamic, value-less, string} x symbolic {host kind, constness, options}; complete over the shared contract's abstract domain",
      mem_gb=6, timeout=600, unwindset={"memcmp.0": 21}, assumes=[A_DROP, A_CLONE, A_TT, A_CONST, A_FMT, A_EXTRACT]),
    U("U-step-plain-frame", ["VueJsxTransformVisitor::transform_attrs[plain arm]"], ["step_other_fullstate"], ["C13", "C01"], completeness="bounded",
      domain="as U-step-plain with non-empty earlier props / merge arguments / dynamic props (frame: they are kept in place)", mem_gb=12, timeout=900, unwindset={"memcmp.0": 21}, tier="thorough",
      assumes=[A_DROP, A_CLONE, A_TT, A_CONST, A_FMT, A_EXTRACT]),
    U("U-step-spread", ["VueJsxTransformVisitor::transform_attrs[spread arm]"], ["step_spread_expr_merge", "step_spread_expr_nomerge", "step_spread_expr_prev_merge", "step_spread_expr_prev_nomerge",
      "step_spread_object_merge", "step_spread_object_nomerge", "step_spread_object_prev_merge", "step_spread_object_prev_nomerge"], ["C13", "C01"], completeness="bounded",
      domain="spread arm: {expression, object literal} x {no earlier prop, one earlier prop} x mergeProps {on, off} (concrete per harness) x symbolic analysis state and other options; dedupe_props replaced by identity (own unit U-dedupe)",
      mem_gb=8, timeout=900, unwindset={"memcmp.0": 12}, assumes=[A_DROP, A_CLONE, A_FMT, A_EXTRACT]),
    U("U-step-spread-flag", ["VueJsxTransformVisitor::transform_attrs[spread arm]"], ["step_spread_flag_expr", "step_spread_flag_object"], ["C13"],
      domain="spread arm, hint effect: {expression, object literal} x symbolic options, empty earlier lists", mem_gb=10, timeout=900, unwindset={"memcmp.0": 12}, assumes=[A_DROP, A_CLONE, A_FMT, A_EXTRACT]),
    U("U-flagfinal", ["VueJsxTransformVisitor::transform_attrs[finalisation]"], ["step_finalize"], ["C13"],
      domain="all 2^7 combinations of the analysis booleans: complete", mem_gb=6, timeout=600, assumes=[A_DROP, A_EXTRACT]),
    U("U-assemble", ["VueJsxTransformVisitor::transform_attrs[props assembly]", "util::dedupe_props"], ["asm_none", "asm_one_prop", "asm_two_props", "asm_lone_spread", "asm_one_merge", "asm_two_merge", "asm_merge_and_props", "asm_two_merge_and_props", "asm_repeated_plain", "asm_repeated_class"], ["C01"],
      completeness="bounded", domain="props list of length 0..2 or a lone spread x merge-argument list of length 0..2 x symbolic options", mem_gb=8, timeout=900, unwindset={"memcmp.0": 12}, assumes=[A_DROP, A_CLONE, A_FMT, A_EXTRACT]),
    U("U-step-dir", ["VueJsxTransformVisitor::transform_attrs[directive arm]"], ["step_dir_normal", "step_dir_normal_comp", "step_dir_html", "step_dir_html_comp", "step_dir_text", "step_slots_some", "step_slots_none"], ["C04", "C13", "C03"],
      domain="directive arm from an arbitrary analysis state: parse results {normal, html, text, v-slots value / none} x symbolic host kind and options; complete over these parse-result kinds",
      mem_gb=8, timeout=900, unwindset={"memcmp.0": 21}, assumes=[A_DROP, A_CLONE, A_PD, A_FMT, A_EXTRACT]),
    U("U-step-vmodel", ["VueJsxTransformVisitor::transform_attrs[directive arm, v-model]"], ["step_vmodel_plain", "step_vmodel_plain_comp", "step_vmodel_computed", "step_vmodel_computed_elem", "step_vmodel_nullarg", "step_vmodel_nullarg_comp"], ["C05", "C13"], tier="thorough",
      domain="v-model arm: argument {absent, null, computed} x host kind (concrete per harness) x symbolic options; needs > 16 GB per harness (all three key forms are explored at each of the three match sites)", mem_gb=40, timeout=5400, unwindset={"memcmp.0": 21}, assumes=[A_DROP, A_CLONE, A_PD, A_FMT, A_EXTRACT]),
    U("U-step-on-strict", ["VueJsxTransformVisitor::transform_attrs[plain arm]"], ["step_on_strict"], ["C13"], domain="dynamic `on` attribute, transformOn off, symbolic state", mem_gb=6, timeout=600,
      unwindset={"memcmp.0": 21}, assumes=[A_DROP, A_CLONE, A_CONST, A_TT, A_FMT, A_EXTRACT]),
    U("L-flags", ["lemma over the contracts of U-step-plain / U-step-spread / U-step-dir / U-flagfinal"], ["flags_lemma"], ["C13"], backend="verus",
      domain="attribute sequences of ANY length (induction): unbounded", assumes=["the abstract step of the directive arms (K_DIR_*, K_VMODEL_*) in the lemma is the contract checked by U-step-dir"]),
    U("L-flagword", ["patch_flags::PatchFlags (constants extracted each run)", "VueJsxTransformVisitor::transform_attrs[flag finalisation: word built from the six inserted flags]"], ["flagword_lemma"], ["C13"], backend="verus",
      domain="all 2^6 flag combinations over the real constants (bit-vector proof): complete", assumes=["bitflags! API (insert = bit-or, is_empty = bits==0, == on bits, bits()) is assumed, the macro wrapper is dropped by the extraction", "`bits() as f64` is exact for every i16"]),
]

CHILDREN = ["children_none", "children_text", "children_expr", "children_empty_expr", "children_text_expr", "children_expr_empty", "children_text_bound_ident",
            "children_text_unbound_ident", "children_spread_text", "children_bound_spread_text"]
CHILDREN_Q = ["children_none", "children_empty_expr", "children_text_bound_ident"]
UNITS += [
    U("U-children", ["VueJsxTransformVisitor::transform_children", "VueJsxTransformVisitor::wrap_children", "VueJsxTransformVisitor::transform_jsx_text"], CHILDREN_Q, ["C02", "C13"], completeness="bounded",
      domain="child lists {none, empty expression, text + bound identifier} x symbolic host kind and options", mem_gb=10, timeout=1500,
      unwindset={"memcmp.0": 16}, assumes=[A_DROP, A_CLONE, A_TT, A_FMT]),
    U("U-children-more", ["VueJsxTransformVisitor::transform_children", "VueJsxTransformVisitor::wrap_children"], ["children_text_expr", "children_text_unbound_ident", "children_spread_text", "children_bound_spread_text"], ["C02", "C13"], completeness="bounded", tier="thorough",
      domain="child lists of length 2 (text + expression, text + unbound identifier, spread + text, bound spread + text)", mem_gb=12, timeout=2400, unwindset={"memcmp.0": 16}, assumes=[A_DROP, A_CLONE, A_TT, A_FMT]),
    U("U-slotflag-stack", ["VueJsxTransformVisitor::transform_children"], ["slot_flag_stack_fill"], ["C13"], completeness="bounded", domain="two enclosing elements, bound identifier child", mem_gb=8, timeout=900,
      unwindset={"memcmp.0": 16}, assumes=[A_DROP, A_CLONE, A_TT, A_FMT]),
]

UNITS += [
    U("U-dedupe", ["util::dedupe_props"], ["dedupe_class_twice", "dedupe_plain_twice", "dedupe_distinct"], ["C01"], completeness="bounded",
      domain="prop lists of length 2: repeated class, repeated ordinary key, distinct keys", mem_gb=8, timeout=900, unwindset={"memcmp.0": 12}, assumes=[A_DROP, A_CLONE]),
    U("U-dedupe-more", ["util::dedupe_props"], ["dedupe_class_thrice"], ["C01"], completeness="bounded", tier="thorough",
      domain="three repeated class values (listener around another prop / a spread in between: out of memory at 24 GB, not run)", mem_gb=24, timeout=2400, unwindset={"memcmp.0": 12}, assumes=[A_DROP, A_CLONE]),
]

UNITS += [
    U("U-dirpriv", ["directive::is_identifier_name", "directive::lowercase_first_letter"], ["dirpriv_is_identifier_name", "dirpriv_lowercase_first_letter", "dirpriv_lowercase_first_letter_multibyte"], ["C04", "C07", "C08"],
      domain="private helpers of directive.rs: all ASCII strings of length <= 3 (identifier-name test; first-letter lower-casing incl. the empty name) and a name starting with a 2-byte character: complete over that domain", mem_gb=4, timeout=600, assumes=[A_DROP]),
    U("U-fragname", ["is_fragment_name"], ["fragment_name_rule"], ["C02", "C10"], completeness="bounded", domain="names of length <= 11 over the alphabet `_Fragment12x`", mem_gb=6, timeout=600),
    U("U-deserialize", ["<options::Options as serde::Deserialize>::deserialize (derived impl, real serde)"], ["de_empty", "de_only_transform_on", "de_only_optimize", "de_only_merge_props", "de_only_enable_object_slots", "de_only_resolve_type", "de_unknown_key"], ["C14"],
      completeness="bounded", domain="configuration maps with 0 or 1 entries (each documented boolean key with a symbolic value; one unknown key); pragma / customElementPatterns values not exercised", mem_gb=8, timeout=900,
      unwindset={"memcmp.0": 21}, assumes=[A_DROP, "serde_json's parser (JSON text -> serde data model) is assumed; the map is fed through serde::de::value::MapDeserializer"]),
    U("U-regexvisit", ["options::RegexVisitor::visit_str", "options::RegexVisitor::visit_string"], ["regex_visit_valid_str", "regex_visit_invalid_str", "regex_visit_valid_string", "regex_visit_invalid_string"], ["C14"],
      completeness="bounded", domain="2 valid and 2 invalid patterns x {visit_str, visit_string}; `regex::Regex::new` by the stand-in's contract (callee assumed)", mem_gb=4, timeout=600, assumes=[A_DROP, A_FMT]),
    U("U-wrap", ["VueJsxTransformVisitor::wrap_children"], ["wrap_no_slots"], ["C13"], completeness="bounded", domain="no v-slots x symbolic options and slot flag", mem_gb=6, timeout=900, assumes=[A_DROP, A_CLONE, A_FMT]),
    U("U-wrap-slots", ["VueJsxTransformVisitor::wrap_children"], ["wrap_object_slots", "wrap_expr_slots"], ["C13", "C12"], completeness="bounded", domain="v-slots {object literal, expression} x symbolic options and slot flag", mem_gb=12, timeout=900, assumes=[A_DROP, A_CLONE, A_FMT]),
]

UNITS += [
    U("U-emit-hints", ["VueJsxTransformVisitor::transform_jsx_element[hint emission]"], ["hints_no_dynamic_props", "hints_one_dynamic_prop", "hints_two_dynamic_props", "hints_list_absent"], ["C13"],
      domain="hint-emission region of transform_jsx_element (extracted verbatim): every flag word 0..2047 (symbolic) x dynamic-prop list {absent, empty, 1, 2 names} x symbolic options: complete over that domain",
      mem_gb=6, timeout=900, unwindset={"memcmp.0": 12}, assumes=[A_DROP, A_CLONE, A_FMT, A_EXTRACT]),
    U("U-wrap-directives", ["VueJsxTransformVisitor::transform_jsx_element[withDirectives wrapping]"], ["wrapdir_none"], ["C04"],
      domain="withDirectives region of transform_jsx_element (extracted verbatim): without directives the vnode call is returned as is", mem_gb=6, timeout=600, unwindset={"memcmp.0": 16}, assumes=[A_DROP, A_CLONE, A_FMT, A_EXTRACT]),
    U("U-wrap-directives-more", ["VueJsxTransformVisitor::transform_jsx_element[withDirectives wrapping]", "VueJsxTransformVisitor::resolve_directive"],
      ["wrapdir_value_only", "wrapdir_with_arg", "wrapdir_with_mods_only", "wrapdir_with_arg_and_mods", "wrapdir_two"], ["C04"], completeness="bounded", tier="out_of_reach",
      domain="1 (x arg / modifiers present) or 2 directives: out of memory at 24 GB", mem_gb=24, timeout=3600, unwindset={"memcmp.0": 16}, assumes=[A_DROP, A_CLONE, A_FMT, A_EXTRACT]),
    U("U-fragment", ["VueJsxTransformVisitor::transform_jsx_fragment"], ["fragment_lowering"], ["C02", "C15"], completeness="bounded", tier="out_of_reach",
      domain="empty fragment x {pragma option, none} x symbolic options", mem_gb=16, timeout=2400, unwindset={"memcmp.0": 16}, assumes=[A_DROP, A_CLONE, A_FMT]),
]

UNITS += [
    U("U-optimize-frame", ["VueJsxTransformVisitor::transform_attrs[plain arm]"], ["optframe_class", "optframe_on", "optframe_listener", "optframe_other"], ["C12"],
      domain="2-safety: two visitors that differ only in `optimize`; name classes {class, on, listener, other} x symbolic host kind, constness and other options: the contributed props / merge arguments are identical",
      mem_gb=8, timeout=900, unwindset={"memcmp.0": 21}, assumes=[A_DROP, A_CLONE, A_TT, A_CONST, A_FMT, A_EXTRACT]),
]
for _u in UNITS:
    if _u["id"] in ("U-emit-hints", "U-wrap", "U-children") and "C12" not in _u["props"]:
        _u["props"].append("C12")

UNITS += [
    U("U-rt-structural", ["resolve_type::infer_runtime_type"], ["rt1_array", "rt1_tuple", "rt1_fn", "rt1_paren"], ["C17"], completeness="bounded",
      domain="array / tuple -> Array, function type -> Function, parentheses transparent (one level; type inputs in global slots)", mem_gb=6, timeout=600, unwindset={"memcmp.0": 12}, assumes=[A_DROP, A_CLONE]),
    U("U-rt-structural-more", ["resolve_type::infer_runtime_type", "resolve_type::resolve_indexed_access"], ["rt1_array_index_literal", "rt1_array_index_number", "rt1_union_boolean_string", "rt1_union_string_boolean", "rt1_nonnullable"], ["C17"],
      completeness="bounded", tier="out_of_reach", domain="indexed access on arrays, union order, NonNullable: no verdict in 15 min at 16 GB even with global-backed inputs (the result of the first call is re-analysed through a copy whose shape CBMC no longer knows)", mem_gb=16, timeout=1800, assumes=[A_DROP, A_CLONE]),
]

CANARY = dict(harness="canary_must_fail", timeout=300, mem_gb=4)
# self-check of the drop-glue assumption: must PASS (the model of Vec::extend_from_slice is in place and correct)
SELFCHECK = dict(harness="guard_model_selfcheck", timeout=300, mem_gb=4)

PROPERTIES = {}


def units_for(prop, tier):
    """quick: units of tier quick; thorough: quick + thorough.  Units marked out_of_reach were built and tried (>= 40 GB /
    40 min without a verdict, see DESIGN.md section 4) and are never run: they are kept as a record, not as a claim."""
    out = []
    for u in UNITS:
        if prop in u["props"] and (u["tier"] == "quick" or (tier == "thorough" and u["tier"] == "thorough")):
            out.append(u)
    return out
