"""Registry of verification units: which real functions are under contract, by which harnesses, for which
properties, complete or bounded, in which tier.  /verif/check reads only this."""

MEMCMP = {"memcmp.0": 33}


def U(uid, functions, harnesses, props, completeness="complete", domain="", tier="quick", timeout=900, mem_gb=8,
      unwindset=None, replay=None, backend="kani", assumes=()):
    return dict(id=uid, functions=functions, harnesses=harnesses, props=props, completeness=completeness, domain=domain,
                tier=tier, timeout=timeout, mem_gb=mem_gb, unwindset=dict(MEMCMP if unwindset is None else unwindset),
                replay=replay, backend=backend, assumes=list(assumes))


A_DROP = "A-DROP: AST destructors have no observable effect (drop glue stubbed to no-ops; harness leaks)"
A_CLONE = "A-CLONE: Clone of stand-in AST nodes is a bitwise copy (sound because nothing is dropped and cloned nodes are never mutated in place by the visitor; site audit in DESIGN.md 3.4)"
A_STANDIN = "A-STANDIN: swc_core / css_dataset / regex / indexmap / fnv are replaced by the stand-in crates under /verif/standin (assumed contracts on dependencies; names checked by tools/conformance.py)"
A_FMT = "A-FMT: format! replaced by a marker model in harnesses that carry the stub (generated identifier texts not checked there)"
A_PD = "callee contract: directive::parse_directive replaced by its model (own contract: units U-dir*)"
A_TT = "callee contract: util::transform_text replaced by a marker model (own contract: unit U-text)"
A_CONST = "callee contract: util::is_jsx_attr_value_constant replaced by an oracle (own contract: unit U-isconst: true only for render-invariant values)"

ISCONST = ["isconst_k0_w0", "isconst_k1_w0", "isconst_k2_w0", "isconst_k3_w0", "isconst_k4_w0", "isconst_k5_w0", "isconst_k6_w0",
           "isconst_k0_w1", "isconst_k1_w1", "isconst_k3_w1", "isconst_k5_w1", "isconst_k0_w2", "isconst_k1_w2", "isconst_k4_w2",
           "isconst_k0_w3", "isconst_k1_w3", "isconst_k2_w3", "isconst_k6_w3", "isconst_k3_w4", "isconst_k3_w5", "isconst_value_kinds"]
PLAIN = ["attr_class_dyn", "attr_style_dyn", "attr_key_dyn", "attr_ref_dyn", "attr_on_dyn", "attr_nativeon_dyn", "attr_onclick_camel_dyn",
         "attr_onclick_lower_dyn", "attr_onfoo_dyn", "attr_onupdate_dyn", "attr_id_dyn", "attr_id_bool", "attr_id_str", "attr_class_str", "attr_onfoo_bool"]
DARM = ["darm_normal", "darm_html", "darm_text", "darm_vmodel_plain", "darm_vmodel_strarg", "darm_vmodel_computed", "darm_vmodel_nullarg", "darm_slots_some", "darm_slots_none"]
TAGS = ["tag_div", "tag_svg", "tag_fragment", "tag_keepalive", "tag_foo_comp", "tag_xel_nopattern", "tag_xel_pattern", "tag_lower_unknown",
        "tag_upper_div", "tag_a", "tag_div_pattern", "tag_foo_pattern"]

UNITS = [
    U("U-ison", ["util::is_on"], ["ison_spec"], ["C13", "C01"], domain="all ASCII strings of length <= 4 (the function reads <= 3 bytes): complete", mem_gb=4, timeout=300),
    U("U-isdir", ["directive::is_directive"], ["isdir_spec_plain", "isdir_spec_namespaced"], ["C04"], domain="all ASCII names of length <= 3 x {plain, namespaced}: complete (reads <= 2 bytes)", mem_gb=4, timeout=300),
    U("U-const", ["patch_flags::PatchFlags", "slot_flag::SlotFlag"], ["const_patch_flags"], ["C13"], domain="constants: complete", mem_gb=4, timeout=300),
    U("U-defaults", ["options::Options::default"], ["options_default"], ["C14"], domain="no input: complete", mem_gb=4, timeout=300, assumes=[A_DROP]),
    U("U-isconst", ["util::is_jsx_attr_value_constant", "util::is_constant"], ISCONST, ["C13"], completeness="bounded",
      domain="7 leaf kinds x 6 wrappers (array/object/spread), nesting depth <= 2", mem_gb=6, timeout=600, assumes=[A_DROP, A_CLONE]),
    U("U-tag", ["VueJsxTransformVisitor::transform_tag", "VueJsxTransformVisitor::is_component", "VueJsxTransformVisitor::import_from_vue"],
      TAGS + ["tag_member"], ["C01", "C02", "C03", "C08"], domain="9 tag names x {no pattern, ^x-} x symbolic {unresolved, Fragment imported before, 4 options}", mem_gb=8, timeout=900, assumes=[A_DROP, A_CLONE, A_FMT]),
    U("U-tag-fragment", ["VueJsxTransformVisitor::is_component"], ["tag_fragment_not_component"], ["C02", "C03", "C10"], domain="`Fragment` x symbolic history", mem_gb=8, assumes=[A_DROP, A_FMT]),
    U("U-tag-frame", ["VueJsxTransformVisitor::is_component"], ["tagframe_alias_text", "tagframe_foo", "tagframe_div"], ["C10"], domain="2-safety: two visitor states that differ in the Fragment import", mem_gb=8, assumes=[A_DROP, A_FMT]),
    U("U-tag-nojsx", ["VueJsxTransformVisitor::transform_tag"], ["tag_namespaced_no_jsx_leak"], ["C07"], domain="namespaced tag", mem_gb=8, assumes=[A_DROP, A_FMT]),
    U("U-attrs-plain", ["VueJsxTransformVisitor::transform_attrs", "util::is_on", "util::dedupe_props", "directive::is_directive"], PLAIN,
      ["C13", "C01"], completeness="bounded", domain="one attribute: 11 names x {dynamic, value-less, string} x symbolic {host kind, constness, 4 options}; attribute list length 1",
      mem_gb=10, timeout=1500, assumes=[A_DROP, A_CLONE, A_PD, A_TT, A_CONST]),
    U("U-attrs-ns", ["VueJsxTransformVisitor::transform_attrs"], ["attr_namespaced_dyn"], ["C01"], completeness="bounded", domain="one namespaced attribute a:b, real format!", mem_gb=12, timeout=1800, tier="thorough", assumes=[A_DROP, A_CLONE, A_PD, A_TT, A_CONST]),
    U("U-attrs-darm", ["VueJsxTransformVisitor::transform_attrs"], DARM, ["C04", "C05", "C13", "C03"], completeness="bounded",
      domain="one directive attribute: 9 parse results (normal, html, text, 4 v-model argument forms, 2 v-slots) x symbolic {host kind, options}", mem_gb=10, timeout=1500, assumes=[A_DROP, A_CLONE, A_PD, A_FMT]),
]

CANARY = dict(harness="canary_must_fail", timeout=300, mem_gb=4)

PROPERTIES = {}


def units_for(prop, tier):
    out = []
    for u in UNITS:
        if prop in u["props"] and (tier == "thorough" or u["tier"] == "quick"):
            out.append(u)
    return out
