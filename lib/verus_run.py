"""Verus back end: instantiate the lemma file from the shared contract text and run `verus` on it."""
import json, os, re, subprocess, sys, time
VERIF = os.path.dirname(os.path.dirname(os.path.abspath(__file__)))
sys.path.insert(0, os.path.join(VERIF, "tools"))


def run_unit(u):
    import gen_spec
    out_dir = os.path.join(os.environ.get("VERIF_BUILD", os.path.join(VERIF, "build")), "verus")
    os.makedirs(out_dir, exist_ok=True)
    results = []
    for h in u["harnesses"]:
        path = os.path.join(out_dir, h + ".rs")
        try:
            text = gen_spec.VERUS_FILES[h]()
        except gen_spec.AnchorLost as e:
            r = dict(unit=u["id"], harness=h, wall_s=0, failed=[], covers=[], stubs=[], symex_s=None, tail="", verdict="undecided", reason="lost anchor: %s" % e, n_checks=0, n_success=0, n_unreachable=0, solver_s=None)
            sys.stderr.write("  [%s] %-44s %-9s %s\n" % (u["id"], h, r["verdict"], r["reason"][:140]))
            results.append(r)
            continue
        open(path, "w").write(text)
        t0 = time.time()
        try:
            p = subprocess.run(["verus", path, "--output-json", "--time"], cwd=out_dir, stdout=subprocess.PIPE, stderr=subprocess.PIPE, text=True, timeout=u.get("timeout", 600))
            out, err, timed_out = p.stdout, p.stderr, False
        except subprocess.TimeoutExpired:
            out, err, timed_out = "", "", True
        wall = time.time() - t0
        r = dict(unit=u["id"], harness=h, wall_s=round(wall, 2), failed=[], covers=[], stubs=[], symex_s=None, tail="")
        try:
            j = json.loads(out)
        except ValueError:
            j = None
        if timed_out or not j:
            r.update(verdict="undecided", reason="verus produced no result (%s)" % ("timeout" if timed_out else (err[-300:] or out[-300:])), n_checks=0, n_success=0, n_unreachable=0, solver_s=None, tail=(err or out)[-2000:])
        else:
            vr = j.get("verification-results", {})
            verified, errors = vr.get("verified", 0), vr.get("errors", 0)
            t = j.get("times-ms", {})
            r.update(n_checks=verified + errors, n_success=verified, n_unreachable=0, solver_s=round((t.get("smt", {}).get("total", 0) if isinstance(t.get("smt"), dict) else 0) / 1000.0, 2))
            if verified == 0 and errors == 0:
                r.update(verdict="undecided", reason="vacuous: verus checked zero functions (%s)" % err[-300:])
            elif errors == 0 and vr.get("success", True):
                r.update(verdict="pass", reason="")
            else:
                msgs = re.findall(r"error: (.*)", err)
                r.update(verdict="fail", reason="; ".join(msgs[:3]) or "verus reported errors", failed=[dict(name=h, desc=u["id"] + ": " + (m), loc="") for m in (msgs[:5] or ["verus error"])], tail=err[-2500:])
                r["failed_real"] = r["failed"]
        sys.stderr.write("  [%s] %-44s %-9s %6.1fs %s\n" % (u["id"], h, r["verdict"], wall, r["reason"][:140]))
        results.append(r)
    return results
