"""Source-level replay cases per harness: the concretisations of the harness's shape as JSX/TSX source, with the
harness's postcondition phrased over the printed output of the REAL pipeline (parse -> resolver -> visitor -> codegen).
`forbid`/`expect` are regexes over the printed module; `ok_if_error`: an error diagnostic satisfies the contract."""

O = dict(optimize=True)
RT = dict(resolveType=True)


def dc(opts_arg):
    return "import { defineComponent } from 'vue'; const user = 1; defineComponent((p: { a: string }) => {}%s);" % opts_arg


CASES = {
    # ---- C02/C03/C10: Fragment ----
    "tag_fragment_not_component": [
        dict(id="user-Fragment-first", source="import { Fragment } from 'vue'; const a = <Fragment><b/></Fragment>;", forbid=[r"default:\s*\(\)\s*=>"]),
        dict(id="user-Fragment-after-<>", source="import { Fragment } from 'vue'; const z = <></>; const a = <Fragment><b/></Fragment>;", forbid=[r"default:\s*\(\)\s*=>"]),
    ],
    "tag_namespaced_no_jsx_leak": [dict(id="ns-tag", source="const a = <a:b />;", forbid=[r"\(a:b,"], ok_if_error=True)],
    # ---- C15 ----
    "pragmac_importsource": [dict(id="importsource", source="/** @jsxImportSource vue */\nconst a = <div />;", expect=[r"_createVNode\(\"div\""])],
    "pragmac_frag": [dict(id="frag", source="/** @jsxFrag F */\nconst a = <div />;", expect=[r"_createVNode\(\"div\""])],
    "pragmac_runtime": [dict(id="runtime", source="/** @jsxRuntime classic */\nconst a = <div />;", expect=[r"_createVNode\(\"div\""])],
    "pragmac_noname": [dict(id="noname", source="/* @jsx */\nconst a = <div />;", expect=[r"_createVNode\(\"div\""])],
    "pragmac_noname_star": [dict(id="noname-star", source="/** @jsx  */\nconst a = <div />;", expect=[r"_createVNode\(\"div\""])],
    "pragmac_trailing_words": [dict(id="trailing", source="/* @jsx h more words */\nconst a = <div />;", expect=[r"= h\(\"div\""], forbid=[r"h more words\("])],
    # ---- C20 ----
    "inject_same_string_key": [dict(id="string-key", syntax="tsx", options=RT, source=dc(", { 'props': user }"), forbid=[r"props:\s*\{\s*a:"])],
    "inject_shorthand_key": [dict(id="shorthand-key", syntax="tsx", options=RT, source="import { defineComponent } from 'vue'; const props = 1; defineComponent((p: { a: string }) => {}, { props });", forbid=[r"props:\s*\{\s*a:"])],
    "inject_literal_with_spread": [dict(id="literal-spread", syntax="tsx", options=RT, source=dc(", { ...user }"), forbid=[r"\.\.\.user,\s*props:"])],
    # ---- C17 ----
    "rt_bigint_literal": [dict(id="bigint-literal", syntax="tsx", options=RT, source="import { defineComponent } from 'vue'; defineComponent((props: { a: 1n }) => {});", expect=[r"type:\s*BigInt"])],
    # ---- C04 ----
    "dirspell_camel_inner_upper": [dict(id="vMyDir", source="const a = <div vMyDir={x} />;", expect=[r"resolveDirective\(\"myDir\"\)"])],
    "dirspell_one_modifier": [dict(id="v-foo_a", source="const a = <div v-foo_a={x} />;", expect=[r"void 0,\s*\{\s*a: true"], forbid=[r"x,\s*\"a\""])],
    "dirspell_two_modifiers": [dict(id="v-foo_b_a", source="const a = <div v-foo_b_a={x} />;", expect=[r"void 0,\s*\{\s*a: true,\s*b: true"])],
    "dirval_nonident_modifier": [dict(id="a-b", source="const a = <div v-foo={[x, ['a-b']]} />;", forbid=[r"\{\s*a-b:"])],
    "dirval_string": [dict(id="string-value", source="const a = <div v-foo=\"s\" />;", forbid=[r"resolveDirective\(\"foo\"\),\s*\n?\s*\]"], ok_if_error=True)],
    "dirval_absent": [dict(id="absent-value", source="const a = <div v-foo />;", forbid=[r"resolveDirective\(\"foo\"\),\s*\n?\s*\]"], ok_if_error=True)],
    "dirval_empty_array": [dict(id="empty-array", source="const a = <div v-foo={[]} />;", forbid=[r"resolveDirective\(\"foo\"\),\s*\n?\s*\]"], ok_if_error=True)],
    "dirval_hole": [dict(id="hole", source="const a = <div v-foo={[, y]} />;", forbid=[r"resolveDirective\(\"foo\"\),\s*\n?\s*,"], ok_if_error=True)],
    "vhtml_element": [dict(id="v-html-element", source="const a = <div v-html=<b/> />;")],
    "vhtml_fragment": [dict(id="v-html-fragment", source="const a = <div v-html=<></> />;")],
    "vtext_element": [dict(id="v-text-element", source="const a = <div v-text=<b/> />;")],
    "vtext_fragment": [dict(id="v-text-fragment", source="const a = <div v-text=<></> />;")],
    # ---- C05 ----
    "vmodel_suffix_modifier": [
        dict(id="v-model_trim-element", source="const a = <input v-model_trim={x} />;", expect=[r"onUpdate:modelValue"], forbid=[r"onUpdate:trim"]),
        dict(id="v-model_trim-component", source="const a = <Comp v-model_trim={x} />;", expect=[r"modelModifiers"], forbid=[r"onUpdate:trim"]),
    ],
    "step_vmodel_computed": [dict(id="computed-arg", source="const a = <Comp v-model={[v, arg]} />;", expect=[r"\"onUpdate:\" \+ arg"])],
    "darm_vmodel_computed": [dict(id="computed-arg", source="const a = <Comp v-model={[v, arg]} />;", expect=[r"\"onUpdate:\" \+ arg"])],
    # ---- C13 ----
    "step_on_strict": [dict(id="on-with-other-dynamic-prop", options=dict(optimize=True), source="const a = <div on={x} id={y} />;", expect=[r"\[\s*(\"id\",\s*\"on\"|\"on\",\s*\"id\")\s*\]"])],
    "step_nativeon": [dict(id="nativeOn-transformOn", options=dict(optimize=True, transformOn=True), source="const a = <div nativeOn={x} />;", forbid=[r"\[\s*\"nativeOn\"\s*\]"])],
}
