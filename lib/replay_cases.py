"""Source-level replay cases per harness: the concretisations of the harness's shape as JSX/TSX source, with the
harness's postcondition phrased over the printed output of the REAL pipeline (parse -> resolver -> visitor -> codegen).
`forbid`/`expect` are regexes over the printed module; `ok_if_error`: an error diagnostic satisfies the contract."""

O = dict(optimize=True)
RT = dict(resolveType=True)


def dc(opts_arg):
    return "import { defineComponent } from 'vue'; const user = 1; defineComponent((p: { a: string }) => {}%s);" % opts_arg


CASES = {
    # ---- C02/C03/C10: Fragment ----
    "tag_fragment_not_component": [
        dict(id="user-Fragment-first", source="import { Fragment } from 'vue'; const a = <Fragment><b/></Fragment>;", forbid=[r"default:\s*\(\)\s*=>"]),
        dict(id="user-Fragment-after-<>", source="import { Fragment } from 'vue'; const z = <></>; const a = <Fragment><b/></Fragment>;", forbid=[r"default:\s*\(\)\s*=>"]),
    ],
    "tag_namespaced_no_jsx_leak": [dict(id="ns-tag", source="const a = <a:b />;", forbid=[r"\(a:b,"], ok_if_error=True)],
    # ---- C15 ----
    "pragmac_importsource": [dict(id="importsource", source="/** @jsxImportSource vue */\nconst a = <div />;", expect=[r"_createVNode\(\"div\""])],
    "pragmac_frag": [dict(id="frag", source="/** @jsxFrag F */\nconst a = <div />;", expect=[r"_createVNode\(\"div\""])],
    "pragmac_runtime": [dict(id="runtime", source="/** @jsxRuntime classic */\nconst a = <div />;", expect=[r"_createVNode\(\"div\""])],
    "pragmac_noname": [dict(id="noname", source="/* @jsx */\nconst a = <div />;", expect=[r"_createVNode\(\"div\""])],
    "pragmac_noname_star": [dict(id="noname-star", source="/** @jsx  */\nconst a = <div />;", expect=[r"_createVNode\(\"div\""])],
    "pragmac_trailing_words": [dict(id="trailing", source="/* @jsx h more words */\nconst a = <div />;", expect=[r"= h\(\"div\""], forbid=[r"h more words\("])],
    # ---- C20 ----
    "inject_same_string_key": [dict(id="string-key", syntax="tsx", options=RT, source=dc(", { 'props': user }"), forbid=[r"props:\s*\{\s*a:"])],
    "inject_shorthand_key": [dict(id="shorthand-key", syntax="tsx", options=RT, source="import { defineComponent } from 'vue'; const props = 1; defineComponent((p: { a: string }) => {}, { props });", forbid=[r"props:\s*\{\s*a:"])],
    "inject_literal_with_spread": [dict(id="literal-spread", syntax="tsx", options=RT, source=dc(", { ...user }"), forbid=[r"\.\.\.user,\s*props:"])],
    # ---- C17 ----
    "rt_bigint_literal": [dict(id="bigint-literal", syntax="tsx", options=RT, source="import { defineComponent } from 'vue'; defineComponent((props: { a: 1n }) => {});", expect=[r"type:\s*BigInt"])],
    # ---- C04 ----
    "dirspell_camel_inner_upper": [dict(id="vMyDir", source="const a = <div vMyDir={x} />;", expect=[r"resolveDirective\(\"myDir\"\)"])],
    "dirspell_one_modifier": [dict(id="v-foo_a", source="const a = <div v-foo_a={x} />;", expect=[r"void 0,\s*\{\s*a: true"], forbid=[r"x,\s*\"a\""])],
    "dirspell_two_modifiers": [dict(id="v-foo_b_a", source="const a = <div v-foo_b_a={x} />;", expect=[r"void 0,\s*\{\s*a: true,\s*b: true"])],
    "dirval_nonident_modifier": [dict(id="a-b", source="const a = <div v-foo={[x, ['a-b']]} />;", forbid=[r"\{\s*a-b:"])],
    "dirval_string": [dict(id="string-value", source="const a = <div v-foo=\"s\" />;", forbid=[r"resolveDirective\(\"foo\"\),\s*\n?\s*\]"], ok_if_error=True)],
    "dirval_absent": [dict(id="absent-value", source="const a = <div v-foo />;", forbid=[r"resolveDirective\(\"foo\"\),\s*\n?\s*\]"], ok_if_error=True)],
    "dirval_empty_array": [dict(id="empty-array", source="const a = <div v-foo={[]} />;", forbid=[r"resolveDirective\(\"foo\"\),\s*\n?\s*\]"], ok_if_error=True)],
    "dirval_hole": [dict(id="hole", source="const a = <div v-foo={[, y]} />;", forbid=[r"resolveDirective\(\"foo\"\),\s*\n?\s*,"], ok_if_error=True)],
    "vhtml_element": [dict(id="v-html-element", source="const a = <div v-html=<b/> />;")],
    "vhtml_fragment": [dict(id="v-html-fragment", source="const a = <div v-html=<></> />;")],
    "vtext_element": [dict(id="v-text-element", source="const a = <div v-text=<b/> />;")],
    "vtext_fragment": [dict(id="v-text-fragment", source="const a = <div v-text=<></> />;")],
    # ---- C05 ----
    "vmodel_suffix_modifier": [
        dict(id="v-model_trim-element", source="const a = <input v-model_trim={x} />;", expect=[r"onUpdate:modelValue"], forbid=[r"onUpdate:trim"]),
        dict(id="v-model_trim-component", source="const a = <Comp v-model_trim={x} />;", expect=[r"modelModifiers"], forbid=[r"onUpdate:trim"]),
    ],
    "step_vmodel_computed": [dict(id="computed-arg", source="const a = <Comp v-model={[v, arg]} />;", expect=[r"\"onUpdate:\" \+ arg"])],
    "darm_vmodel_computed": [dict(id="computed-arg", source="const a = <Comp v-model={[v, arg]} />;", expect=[r"\"onUpdate:\" \+ arg"])],
    # ---- C13 ----
    "step_on_strict": [dict(id="on-with-other-dynamic-prop", options=dict(optimize=True), source="const a = <div on={x} id={y} />;", expect=[r"\[\s*(\"id\",\s*\"on\"|\"on\",\s*\"id\")\s*\]"])],
    "step_nativeon": [dict(id="nativeOn-transformOn", options=dict(optimize=True, transformOn=True), source="const a = <div nativeOn={x} />;", forbid=[r"\[\s*\"nativeOn\"\s*\]"])],
}


# ---------------------------------------------------------------------------------------------------------------
# Families: replay cases generated from the harness shape.  The expected values come from a small oracle that is the
# statement-level contract for ONE attribute on ONE element (the same `plain_effect` + `final_flags` as the shared spec).
def _single_attr_expect(name, comp, ton):
    """(flag, dynamic_props) for `<host NAME={x} />` with a dynamic value, under optimize"""
    n = name
    is_listener = len(n) > 2 and n.startswith("on") and not n[2].islower()
    if n == "ref":
        return 512, []
    if ton and n in ("on", "nativeOn"):
        return 0, []
    cls = n == "class" and not comp
    sty = n == "style" and not comp
    hyd = (not comp) and is_listener and n.lower() != "onclick" and n != "onUpdate:modelValue"
    dp = [] if (cls or sty or n in ("key", "on")) else [n]
    flag = (2 if cls else 0) + (4 if sty else 0) + (8 if dp else 0) + (32 if hyd else 0)
    return flag, dp


def _attr_cases(name):
    out = []
    for comp in (False, True):
        for ton in (False, True):
            host = "Comp" if comp else "div"
            flag, dp = _single_attr_expect(name, comp, ton)
            expect = []
            forbid = []
            if flag == 0:
                forbid.append(r"_createVNode\([^;]*null,\s*\d+")          # no flag argument at all
            else:
                expect.append(r"null,\s*%d\b" % flag)
            if dp:
                expect.append(r"\[\s*\"%s\"\s*\]" % name)
            else:
                forbid.append(r"\[\s*\"%s\"\s*\]" % name)
            out.append(dict(id="%s-%s-%s" % (name, host, "transformOn" if ton else "plain"), options=dict(optimize=True, transformOn=ton),
                            source="const a = <%s %s={x} />;" % (host, name), expect=expect, forbid=forbid))
    return out


for _h, _n in (("step_ref", "ref"), ("step_class", "class"), ("step_style", "style"), ("step_key", "key"), ("step_on", "on"), ("step_nativeon", "nativeOn"),
               ("step_onclick_camel", "onClick"), ("step_onclick_lower", "onclick"), ("step_onupdate_mv", "onUpdate:modelValue"), ("step_listener", "onFoo"),
               ("step_other", "id"), ("step_listener_modular", "onFoo")):
    CASES.setdefault(_h, _attr_cases(_n))

CASES.setdefault("step_spread_flag_object", [dict(id="object-spread-mergeProps-%s" % mp, options=dict(optimize=True, mergeProps=mp), source="const a = <div {...{ id: x }} title={t} />;", expect=[r",\s*16\b"]) for mp in (True, False)])
CASES.setdefault("step_spread_flag_expr", [dict(id="spread-mergeProps-%s" % mp, options=dict(optimize=True, mergeProps=mp), source="const a = <div {...obj} title={t} />;", expect=[r",\s*16\b"]) for mp in (True, False)])
CASES.setdefault("asm_repeated_plain", [dict(id="repeated-id-mergeProps-off", options=dict(mergeProps=False), source="const a = <div id=\"a\" {...x} id=\"b\" />;", expect=[r"\"id\": \"a\"[\s\S]*\.\.\.x[\s\S]*\"id\": \"b\""])])
CASES.setdefault("asm_repeated_class", [dict(id="repeated-class-mergeProps-off", options=dict(mergeProps=False), source="const a = <A {...a} class=\"x\" class=\"y\" />;", expect=[r"\"class\": \"x\"[\s\S]*\"class\": \"y\""])])

_TAGS = {
    "tag_div": ("div", [r"_createVNode\(\"div\""]), "tag_svg": ("svg", [r"_createVNode\(\"svg\""]), "tag_a": ("a", [r"_createVNode\(\"a\""]),
    "tag_camel_svg": ("clipPath", [r"_createVNode\(\"clipPath\""]), "tag_foo_comp": ("Foo", [r"_resolveComponent\(\"Foo\"\)"]),
    "tag_lower_unknown": ("foo", [r"_resolveComponent\(\"foo\"\)"]), "tag_upper_div": ("Div", [r"_resolveComponent\(\"Div\"\)"]),
    "tag_keepalive": ("KeepAlive", [r"_resolveComponent\(\"KeepAlive\"\)"]), "tag_fragment": ("Fragment", [r"_createVNode\(_Fragment"]),
}
for _h, (_t, _e) in _TAGS.items():
    CASES.setdefault(_h, [dict(id="unbound-" + _t, source="const a = <%s />;" % _t, expect=_e),
                          dict(id="bound-" + _t, source="const %s = 1; const a = <%s />;" % (_t, _t), expect=([r"_createVNode\(%s," % _t] if _t[0].isupper() and _t not in ("Fragment",) else _e)) if _t.isidentifier() else dict(id="dup-" + _t, source="const a = <%s />;" % _t, expect=_e)])
CASES.setdefault("tag_member_fragment", [dict(id="Vue.Fragment", source="const a = <Vue.Fragment>a{b}</Vue.Fragment>;", forbid=[r"default:\s*\(\)\s*=>"])])
CASES.setdefault("tag_member_fragment_alias", [dict(id="Vue._Fragment", source="const a = <Vue._Fragment>a{b}</Vue._Fragment>;", forbid=[r"default:\s*\(\)\s*=>"])])
CASES.setdefault("tag_member_keepalive", [dict(id="Vue.KeepAlive", source="const a = <Vue.KeepAlive>a{b}</Vue.KeepAlive>;", forbid=[r"default:\s*\(\)\s*=>"])])

_DIRS = {"dirspell_kebab": ("v-foo", "foo"), "dirspell_camel": ("vFoo", "foo"), "dirspell_kebab_inner": ("v-my-dir", "my-dir"), "dirspell_name_starts_with_v": ("v-vis", "vis"),
         "dirspell_multibyte_name": ("v-él", "él")}
for _h, (_a, _n) in _DIRS.items():
    CASES.setdefault(_h, [dict(id=_a, source="const a = <div %s={x} />;" % _a, expect=[r"_resolveDirective\(\"%s\"\),\s*x" % _n])])
CASES.setdefault("dirspell_show", [dict(id="v-show", source="const a = <div v-show={x} />;", expect=[r"\[\s*_vShow,\s*x"])])
CASES.setdefault("dirspell_ns_arg", [dict(id="v-foo:bar", source="const a = <div v-foo:bar={x} />;", expect=[r"_resolveDirective\(\"foo\"\),\s*x,\s*\"bar\""])])
CASES.setdefault("dirspell_ns_name_starts_with_v", [dict(id="v-vis:top", source="const a = <div v-vis:top={x} />;", expect=[r"_resolveDirective\(\"vis\"\),\s*x,\s*\"top\""])])
CASES.setdefault("dirspell_suffix_with_array_form", [dict(id="v-foo_a=[x]", source="const a = <div v-foo_a={[x]} />;", expect=[r"x,\s*void 0,\s*\{\s*a: true"])])
CASES.setdefault("dirspell_digit_modifier", [dict(id="v-foo_2x", source="const a = <div v-foo_2x={x} />;", forbid=[r"[{,]\s*2x:"])])
CASES.setdefault("dirpriv_is_identifier_name", [dict(id="v-foo_2x", source="const a = <div v-foo_2x={x} />;", forbid=[r"[{,]\s*2x:"]), dict(id="['2x']", source="const a = <div v-foo={[x, ['2x']]} />;", forbid=[r"[{,]\s*2x:"])])
CASES.setdefault("dirspell_empty_name", [dict(id="v-_a", source="const a = <div v-_a={x} />;")])
CASES.setdefault("dirpriv_lowercase_first_letter", [dict(id="v-", source="const a = <div v-={x} />;"), dict(id="v-_lazy", source="const a = <div v-_lazy={x} />;"), dict(id="vMyDir", source="const a = <div vMyDir={x} />;", expect=[r"_resolveDirective\(\"myDir\"\)"])])
CASES.setdefault("dirpriv_lowercase_first_letter_multibyte", [dict(id="v-élan", source="const a = <div v-élan={x} />;", expect=[r"_resolveDirective\(\"élan\"\)"])])

_MODEL = {"resolve_model_input_notype": ("<input v-model={x} />", "vModelText"), "resolve_model_input_checkbox": ("<input type=\"checkbox\" v-model={x} />", "vModelCheckbox"),
          "resolve_model_input_radio": ("<input type=\"radio\" v-model={x} />", "vModelRadio"), "resolve_model_input_text": ("<input type=\"text\" v-model={x} />", "vModelText"),
          "resolve_model_input_dynamic": ("<input type={t} v-model={x} />", "vModelDynamic"), "resolve_model_input_type_after_other": ("<input id=\"checkbox\" type=\"radio\" v-model={x} />", "vModelRadio"),
          "resolve_model_select": ("<select v-model={x} />", "vModelSelect"), "resolve_model_select_with_type": ("<select type=\"checkbox\" v-model={x} />", "vModelSelect"),
          "resolve_model_textarea": ("<textarea v-model={x} />", "vModelText"), "resolve_model_other_element": ("<div v-model={x} />", "vModelText")}
for _h, (_s, _d) in _MODEL.items():
    CASES.setdefault(_h, [dict(id=_h, source="const a = %s;" % _s, expect=[r"\[\s*_%s,\s*x" % _d])])
CASES.setdefault("vmodel_ns_arg_array_form", [dict(id="v-model:title=[x]", source="const a = <Comp v-model:title={[x]} />;", expect=[r"\"title\": x", r"\"onUpdate:title\""]),
                                              dict(id="v-models", source="const a = <Comp v-models={[[a], [b, \"title\"]]} />;", expect=[r"\"title\": b", r"\"onUpdate:title\""])])

CASES.setdefault("pragma_comment_over_option", [dict(id="comment-and-option", options=dict(pragma="fromOption"), source="/* @jsx fromComment */\nconst a = <div />;", expect=[r"fromComment\(\"div\""], forbid=[r"fromOption\("])])
CASES.setdefault("pragma_option", [dict(id="option", options=dict(pragma="h"), source="const a = <div />;", expect=[r"= h\(\"div\""], forbid=[r"createVNode"])])
CASES.setdefault("pragma_none", [dict(id="none", source="const a = <div />;", expect=[r"_createVNode\(\"div\"", r"createVNode as _createVNode"])])
CASES.setdefault("define_component_identification", [
    dict(id="shadowing-local", syntax="tsx", options=RT, source="import { defineComponent } from 'vue'; function f() { function defineComponent(x: any) { return x } return defineComponent((p: { a: string }) => {}) }", forbid=[r"props:\s*\{\s*a:"]),
    dict(id="vue-import", syntax="tsx", options=RT, source="import { defineComponent } from 'vue'; defineComponent((p: { a: string }) => {});", expect=[r"props:\s*\{\s*a:"])])
CASES.setdefault("jsx_text_empty_iff_dropped", [dict(id="tab-indented", source="const a = <ul>\n\t<li/>\n</ul>;", forbid=[r"_createTextVNode\(\"\"\)"])])
CASES.setdefault("children_text_bound_ident", [dict(id="bound-ident-child", options=O, source="const x = 1; const a = <Comp>a{x}</Comp>;", expect=[r"_: 2"])])
CASES.setdefault("fragment_name_rule", [dict(id="_Fragment-before-<>", source="import { Fragment as _Fragment } from 'vue'; const a = <_Fragment>a{b}</_Fragment>;", forbid=[r"default:\s*\(\)\s*=>"])])
CASES.setdefault("tagframe_alias_text", [dict(id="_Fragment-before-<>", source="import { Fragment as _Fragment } from 'vue'; const a = <_Fragment>a{b}</_Fragment>;", forbid=[r"default:\s*\(\)\s*=>"])])
CASES.setdefault("regex_visit_invalid_str", [dict(id="invalid-pattern", options=dict(customElementPatterns=["("]), source="const a = <div />;", allow_bad_options=True)])


# ---- more families (children, hints, spread placement, dedupe, constness, option injection, imports) ----
CASES.setdefault("children_none", [dict(id="no-children", source="const a = <div></div>;", expect=[r"_createVNode\(\"div\", null, null\)"])])
CASES.setdefault("children_empty_expr", [dict(id="only-a-comment-child", source="const a = <div>{/* c */}</div>;", expect=[r"_createVNode\(\"div\", null, null\)"])])
for _h in ("hints_no_dynamic_props", "hints_one_dynamic_prop", "hints_two_dynamic_props", "hints_list_absent"):
    CASES.setdefault(_h, [dict(id="no-hints-without-optimize", options=dict(optimize=False), source="const a = <div id={x} class={c} />;", forbid=[r"null,\s*\d+"]),
                          dict(id="hints-with-optimize", options=dict(optimize=True), source="const a = <div id={x} title={t} />;", expect=[r"null,\s*8,\s*\[\s*\"id\",\s*\"title\"\s*\]"])])
for _h in ("optframe_class", "optframe_on", "optframe_listener", "optframe_other"):
    CASES.setdefault(_h, [dict(id="props-same-with-and-without-optimize-" + str(o), options=dict(optimize=o), source="const a = <div id={x} class={c} onFoo={f} />;", expect=[r"\"id\": x,\s*\"class\": c,\s*\"onFoo\": f"]) for o in (True, False)])
CASES.setdefault("step_dir_html", [dict(id="v-html", options=O, source="const a = <div v-html={x} />;", expect=[r"\"innerHTML\": x", r"8,\s*\[\s*\"innerHTML\"\s*\]"])])
CASES.setdefault("step_dir_text", [dict(id="v-text", options=O, source="const a = <div v-text={x} />;", expect=[r"\"textContent\": x", r"8,\s*\[\s*\"textContent\"\s*\]"])])
CASES.setdefault("step_dir_normal", [dict(id="custom-directive", options=O, source="const a = <div v-foo={x} />;", expect=[r"null, null, 512\)", r"_resolveDirective\(\"foo\"\),\s*x"])])
CASES.setdefault("step_flagfinal", [dict(id="ref-only", options=O, source="const a = <div ref={r} />;", expect=[r"null,\s*512\)"])])
CASES.setdefault("step_finalize", [dict(id="ref-only", options=O, source="const a = <div ref={r} />;", expect=[r"null,\s*512\)"]), dict(id="spread", options=O, source="const a = <div class={c} {...x} />;", expect=[r",\s*16\)"])])
for _h in ("step_spread_expr_prev_merge", "step_spread_expr_merge", "asm_merge_and_props", "asm_two_merge", "asm_two_merge_and_props"):
    CASES.setdefault(_h, [dict(id="props-then-spread-mergeProps", source="const a = <div id=\"a\" {...x} b={y} />;", expect=[r"_mergeProps\(\{\s*\"id\": \"a\"\s*\},\s*x,\s*\{\s*\"b\": y\s*\}\)"])])
for _h in ("step_spread_expr_prev_nomerge", "step_spread_expr_nomerge"):
    CASES.setdefault(_h, [dict(id="props-then-spread-no-mergeProps", options=dict(mergeProps=False), source="const a = <div id=\"a\" {...x} b={y} />;", expect=[r"\"id\": \"a\",\s*\.\.\.x,\s*\"b\": y"])])
for _h in ("step_spread_object_nomerge", "step_spread_object_prev_nomerge"):
    CASES.setdefault(_h, [dict(id="object-spread-no-mergeProps", options=dict(mergeProps=False, optimize=True), source="const a = <div id=\"a\" {...{ k: v }} />;", expect=[r"\"id\": \"a\",\s*k: v", r",\s*16\)"])])
for _h in ("step_spread_object_merge", "step_spread_object_prev_merge"):
    CASES.setdefault(_h, [dict(id="object-spread-mergeProps", options=dict(optimize=True), source="const a = <div id=\"a\" {...{ k: v }} />;", expect=[r"_mergeProps\(\{\s*\"id\": \"a\"\s*\},\s*\{\s*k: v\s*\}\)", r",\s*16\)"])])
CASES.setdefault("asm_lone_spread", [dict(id="lone-spread", source="const a = <div {...x} />;", expect=[r"_createVNode\(\"div\", x, null\)"])])
CASES.setdefault("asm_none", [dict(id="no-attrs", source="const a = <div />;", expect=[r"_createVNode\(\"div\", null, null\)"])])
for _h in ("dedupe_class_twice", "dedupe_class_thrice"):
    CASES.setdefault(_h, [dict(id="class-twice", source="const a = <div class=\"a\" class={b} />;", expect=[r"\"class\": \[\s*\"a\",\s*b\s*\]"])])
CASES.setdefault("dedupe_plain_twice", [dict(id="id-twice", source="const a = <div id=\"a\" id=\"b\" />;", expect=[r"\{\s*\"id\": \"a\"\s*\}"])])
for _h in ("isconst_k3_w0", "isconst_k4_w0", "isconst_k2_w0", "isconst_value_kinds"):
    CASES.setdefault(_h, [dict(id="constant-values-are-not-dynamic", options=O, source="const a = <div id={\"s\"} n={1} u={undefined} />;", expect=[r"_createVNode\(\"div\", \{[^}]*\}, null\)"])])
for _h in ("isconst_k0_w0", "isconst_k1_w0", "isconst_k5_w0", "isconst_k6_w0", "isconst_k1_w1", "isconst_k0_w1", "isconst_k5_w1", "isconst_k0_w2", "isconst_k1_w2", "isconst_k3_w4", "isconst_k3_w5"):
    CASES.setdefault(_h, [dict(id="non-constant-values-are-dynamic", options=O, source="const a = <div a={x} b={f()} c={o.p} d={[1, x]} e={[...\"s\"]} />;", expect=[r"8,\s*\[\s*\"a\",\s*\"b\",\s*\"c\",\s*\"d\",\s*\"e\"\s*\]"])])
CASES.setdefault("inject_no_options", [dict(id="no-options", syntax="tsx", options=RT, source=dc(""), expect=[r"\{\s*props:\s*\{\s*a:"])])
CASES.setdefault("inject_spread_args", [dict(id="spread-args", syntax="tsx", options=RT, source="import { defineComponent } from 'vue'; const rest = []; defineComponent((p: { a: string }) => {}, ...rest);", forbid=[r"props:\s*\{\s*a:"])])
CASES.setdefault("import_vue_aliased", [dict(id="aliased-import", syntax="tsx", options=RT, source="import { defineComponent as dc } from 'vue'; dc((p: { a: string }) => {});", forbid=[r"props:\s*\{\s*a:"])])
CASES.setdefault("import_other_module", [dict(id="other-module", syntax="tsx", options=RT, source="import { defineComponent } from 'other'; defineComponent((p: { a: string }) => {});", forbid=[r"props:\s*\{\s*a:"])])
CASES.setdefault("import_vue_named", [dict(id="vue-import", syntax="tsx", options=RT, source="import { defineComponent } from 'vue'; defineComponent((p: { a: string }) => {});", expect=[r"props:\s*\{\s*a:"])])
CASES.setdefault("wrap_object_slots", [dict(id="v-slots-object", source="const a = <Comp v-slots={{ foo: f }}>x</Comp>;", expect=[r"default:\s*\(\)\s*=>\s*\[[\s\S]*\],\s*foo: f"])])
CASES.setdefault("wrap_expr_slots", [dict(id="v-slots-ident", source="const a = <Comp v-slots={s}>x</Comp>;", expect=[r"default:\s*\(\)\s*=>\s*\[[\s\S]*\],\s*\.\.\.s"])])
CASES.setdefault("wrap_no_slots", [dict(id="text-child-of-component", options=O, source="const a = <Comp>x</Comp>;", expect=[r"default:\s*\(\)\s*=>", r"_: 1"])])
CASES.setdefault("slot_flag_stack_fill", [dict(id="nested-bound-ident", options=O, source="const x = 1; const a = <A><B>t{x}</B></A>;", expect=[r"_: 2[\s\S]*_: 2"])])
for _h, (_t, _e) in {"rt1_array": ("string[]", "Array"), "rt1_tuple": ("[string, number]", "Array"), "rt1_fn": ("() => void", "Function"), "rt1_paren": ("(number)", "Number"),
                     "rt_keywords": ("bigint", "BigInt"), "rt_literals": ("'a'", "String"), "rtb_date": ("Date", "Date"), "rtb_uppercase": ("Uppercase<'a'>", "String"), "rtb_parameters": ("Parameters<F>", "Array")}.items():
    CASES.setdefault(_h, [dict(id="prop-type-" + _e, syntax="tsx", options=RT, source="import { defineComponent } from 'vue'; defineComponent((p: { a: %s }) => {});" % _t, expect=[r"type:\s*%s\b" % _e])])
CASES.setdefault("step_vmodel_computed_elem", [dict(id="computed-arg-element", source="const a = <input v-model={[v, arg]} />;", expect=[r"\"onUpdate:\" \+ arg"])])
