"""Source-level replay cases per harness: the concretisations of the harness's symbolic shape, with the harness's
postcondition phrased over the printed output of the real pipeline."""

def _opts(**kw):
    return kw

CASES = {
    "tag_fragment_not_component": [
        dict(id="user-Fragment-first", source="import { Fragment } from 'vue'; const a = <Fragment><b/></Fragment>;", forbid=[r"default:\s*\(\)\s*=>"]),
        dict(id="user-Fragment-after-<>", source="import { Fragment } from 'vue'; const z = <></>; const a = <Fragment><b/></Fragment>;", forbid=[r"default:\s*\(\)\s*=>"]),
    ],
    "tag_namespaced_no_jsx_leak": [
        dict(id="ns-tag", source="const a = <a:b />;", forbid=[r"\(a:b,"], ok_if_error=True),
    ],
}
