"""Replay of failed obligations against the REAL code (real swc_core, real visitor from /repo's working tree):
source snippets that drive the failing contract instance through parse -> resolver -> visitor -> codegen, with the
same postcondition phrased over the printed output."""
import hashlib, json, os, re, subprocess, sys, time

VERIF = os.path.dirname(os.path.dirname(os.path.abspath(__file__)))
REPLAY_BIN = os.path.join(VERIF, "build", "replay-target", "debug", "vuejsx-replay")


def build_replay_tool(quiet=True):
    env = dict(os.environ, CARGO_NET_OFFLINE="true", CARGO_TARGET_DIR=os.path.join(VERIF, "build", "replay-target"))
    lock = os.path.join(VERIF, "replay", "Cargo.lock")
    p = subprocess.run(["cargo", "build", "--offline"], cwd=os.path.join(VERIF, "replay"), env=env,
                       stdout=subprocess.PIPE, stderr=subprocess.STDOUT, text=True)
    if p.returncode != 0:
        sys.stderr.write(p.stdout[-3000:])
    return p.returncode == 0


def run_cases(cases):
    """cases: list of dict(id, syntax, options, source).  Rebuilds the tool against /repo's working tree first."""
    if not build_replay_tool():
        return None
    inp = "\n".join(json.dumps(dict(id=c["id"], syntax=c.get("syntax", "jsx"), options=c.get("options", {}), source=c["source"])) for c in cases) + "\n"
    p = subprocess.run([REPLAY_BIN], input=inp, stdout=subprocess.PIPE, stderr=subprocess.DEVNULL, text=True, timeout=300)
    out = {}
    for line in p.stdout.splitlines():
        if line.startswith('{"'):
            try:
                r = json.loads(line)
                out[r["id"]] = r
            except ValueError:
                pass
    return out


def judge(case, res):
    """True when the real code violates the case's postcondition."""
    if res is None:
        return False, "no result"
    st = res.get("status")
    if st == "panic":
        return (not case.get("allow_panic", False)), "transform panicked"
    if st != "ok":
        return False, "input not accepted by the parser (%s)" % st
    out = res.get("output", "")
    if case.get("ok_if_error") and res.get("errors", 0) > 0:
        return False, "error diagnostic reported"
    for rx in case.get("forbid", []):
        if re.search(rx, out):
            return True, "output matches forbidden /%s/" % rx
    for rx in case.get("expect", []):
        if not re.search(rx, out):
            return True, "output lacks expected /%s/" % rx
    return False, "postcondition holds on the real code"


def write_replay(prop, r, descs, registry, tier):
    import replay_cases
    h = r["harness"].split("::")[-1]
    cases = replay_cases.CASES.get(h, [])
    replayed = []
    if cases:
        res = run_cases(cases)
        for c in cases:
            bad, why = judge(c, (res or {}).get(c["id"]))
            replayed.append(dict(id=c["id"], source=c["source"], options=c.get("options", {}), syntax=c.get("syntax", "jsx"),
                                 violates=bad, why=why, output=((res or {}).get(c["id"]) or {}).get("output", "")[:1500],
                                 status=((res or {}).get(c["id"]) or {}).get("status")))
    doc = dict(property=prop, harness=r["harness"], unit=r.get("unit"), failed_obligations=descs,
               failed_checks=[dict(name=c["name"], desc=c["desc"], loc=c["loc"]) for c in r.get("failed", [])][:40],
               backend="kani/cbmc", tier=tier,
               failing_inputs=[x for x in replayed if x["violates"]],
               replayed_cases=replayed,
               note=("the verifier's counterexample is a harness with concrete attribute/tag shapes and symbolic booleans; replay enumerates "
                     "all concretisations of that shape as source text and runs them through the real pipeline"),
               verifier_output_tail=r.get("tail", "")[-2500:])
    os.makedirs(os.path.join(VERIF, "replays"), exist_ok=True)
    key = hashlib.sha256(("|".join(descs) + h).encode()).hexdigest()[:8]
    path = os.path.join(VERIF, "replays", "%s-%s-%s.json" % (prop, h, key))
    with open(path, "w") as f:
        json.dump(doc, f, indent=1)
    return path


def has_failing_input(path):
    try:
        return bool(json.load(open(path)).get("failing_inputs"))
    except Exception:
        return False


def replay_file(path):
    doc = json.load(open(path))
    cases = [dict(id=c["id"], source=c["source"], options=c.get("options", {}), syntax=c.get("syntax", "jsx")) for c in doc.get("replayed_cases", [])]
    import replay_cases
    spec = {c["id"]: c for c in replay_cases.CASES.get(doc["harness"].split("::")[-1], [])}
    if not cases:
        print("replay file carries no input (no-failing-input-found); failed obligations: %s" % "; ".join(doc.get("failed_obligations", [])))
        print(doc.get("verifier_output_tail", "")[-1500:])
        return 1
    res = run_cases(cases)
    rc = 0
    for c in cases:
        bad, why = judge(spec.get(c["id"], c), (res or {}).get(c["id"]))
        print("%s %s: %s" % ("VIOLATES" if bad else "holds   ", c["id"], why))
        if bad:
            print("  source: %s" % c["source"])
            print("  output: %s" % ((res or {}).get(c["id"]) or {}).get("output", "").strip()[:600])
            rc = 1
    return rc
