//! Stand-in for `fnv` 1.0 (API surface used: `FnvHashMap` with Default/get/get_mut/insert).
//! ASSUMED CONTRACT of the dependency (std HashMap + FNV hasher): a finite map with unique keys.
//! Model: association list; `insert` replaces the value of an equal key, otherwise appends.
#[derive(Debug)]
pub struct FnvHashMap<K, V>(pub Vec<(K, V)>);
impl<K, V> Default for FnvHashMap<K, V> { fn default() -> Self { FnvHashMap(Vec::new()) } }
impl<K: PartialEq, V> FnvHashMap<K, V> {
    pub fn get(&self, k: &K) -> Option<&V> {
        let mut i = 0;
        while i < self.0.len() { if self.0[i].0 == *k { return Some(&self.0[i].1); } i += 1; }
        None
    }
    pub fn get_mut(&mut self, k: &K) -> Option<&mut V> {
        let mut i = 0;
        while i < self.0.len() { if self.0[i].0 == *k { return Some(&mut self.0[i].1); } i += 1; }
        None
    }
    pub fn insert(&mut self, k: K, v: V) -> Option<V> {
        let mut i = 0;
        while i < self.0.len() {
            if self.0[i].0 == k { return Some(std::mem::replace(&mut self.0[i].1, v)); }
            i += 1;
        }
        self.0.push((k, v));
        None
    }
    pub fn len(&self) -> usize { self.0.len() }
    pub fn is_empty(&self) -> bool { self.0.is_empty() }
    pub fn contains_key(&self, k: &K) -> bool { self.get(k).is_some() }
    pub fn remove(&mut self, k: &K) -> Option<V> {
        let mut i = 0;
        while i < self.0.len() { if self.0[i].0 == *k { return Some(self.0.remove(i).1); } i += 1; }
        None
    }
    pub fn iter(&self) -> impl Iterator<Item = (&K, &V)> { self.0.iter().map(|kv| (&kv.0, &kv.1)) }
    pub fn keys(&self) -> impl Iterator<Item = &K> { self.0.iter().map(|kv| &kv.0) }
    pub fn values(&self) -> impl Iterator<Item = &V> { self.0.iter().map(|kv| &kv.1) }
    /// the `entry` API of std's HashMap (subset)
    pub fn entry(&mut self, k: K) -> Entry<'_, K, V> { Entry { map: self, key: k } }
}
pub struct Entry<'a, K, V> { map: &'a mut FnvHashMap<K, V>, key: K }
impl<'a, K: PartialEq, V> Entry<'a, K, V> {
    pub fn or_insert_with<F: FnOnce() -> V>(self, f: F) -> &'a mut V {
        let mut i = 0;
        let mut found = usize::MAX;
        while i < self.map.0.len() { if self.map.0[i].0 == self.key { found = i; break; } i += 1; }
        if found == usize::MAX { self.map.0.push((self.key, f())); found = self.map.0.len() - 1; }
        &mut self.map.0[found].1
    }
    pub fn or_insert(self, v: V) -> &'a mut V { self.or_insert_with(|| v) }
    pub fn or_default(self) -> &'a mut V where V: Default { self.or_insert_with(V::default) }
}
