//! Stand-in for `fnv` 1.0 (API surface used: `FnvHashMap` with Default/get/get_mut/insert).
//! ASSUMED CONTRACT of the dependency (std HashMap + FNV hasher): a finite map with unique keys.
//! Model: association list; `insert` replaces the value of an equal key, otherwise appends.
#[derive(Debug)]
pub struct FnvHashMap<K, V>(pub Vec<(K, V)>);
impl<K, V> Default for FnvHashMap<K, V> { fn default() -> Self { FnvHashMap(Vec::new()) } }
impl<K: PartialEq, V> FnvHashMap<K, V> {
    pub fn get(&self, k: &K) -> Option<&V> {
        let mut i = 0;
        while i < self.0.len() { if self.0[i].0 == *k { return Some(&self.0[i].1); } i += 1; }
        None
    }
    pub fn get_mut(&mut self, k: &K) -> Option<&mut V> {
        let mut i = 0;
        while i < self.0.len() { if self.0[i].0 == *k { return Some(&mut self.0[i].1); } i += 1; }
        None
    }
    pub fn insert(&mut self, k: K, v: V) -> Option<V> {
        let mut i = 0;
        while i < self.0.len() {
            if self.0[i].0 == k { return Some(std::mem::replace(&mut self.0[i].1, v)); }
            i += 1;
        }
        self.0.push((k, v));
        None
    }
    pub fn len(&self) -> usize { self.0.len() }
    pub fn is_empty(&self) -> bool { self.0.is_empty() }
}
