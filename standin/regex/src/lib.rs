//! Stand-in for `regex` 1.x (API surface used by swc-vue-jsx-visitor: `Regex::new`, `Regex::is_match`, `Error`).
//! ASSUMED CONTRACT of the dependency: `Regex::new` is a pure function of the pattern text that either fails or
//! yields a matcher; `is_match` is a pure predicate of (pattern, text).
//! Model: a pattern is valid iff it does not start with '(' (stand-in for "unbalanced group"); a valid pattern
//! `^lit` matches texts that start with `lit`, any other valid pattern `lit` matches texts equal to `lit`.
#[derive(Clone, Debug)]
pub struct Regex { anchored_prefix: bool, lit: [u8; 8], len: u8 }
#[derive(Clone, Debug, PartialEq)]
pub struct Error;
impl std::fmt::Display for Error { fn fmt(&self, f: &mut std::fmt::Formatter) -> std::fmt::Result { f.write_str("regex parse error") } }
impl std::error::Error for Error {}
impl Regex {
    pub fn new(re: &str) -> Result<Regex, Error> {
        let b = re.as_bytes();
        if b.len() > 9 || (b.len() > 0 && b[0] == b'(') { return Err(Error); }
        let anchored_prefix = b.len() > 0 && b[0] == b'^';
        let start = if anchored_prefix { 1 } else { 0 };
        if b.len() - start > 8 { return Err(Error); }
        let mut lit = [0u8; 8];
        let mut i = start;
        while i < b.len() { lit[i - start] = b[i]; i += 1; }
        Ok(Regex { anchored_prefix, lit, len: (b.len() - start) as u8 })
    }
    pub fn is_match(&self, text: &str) -> bool {
        let t = text.as_bytes();
        let n = self.len as usize;
        if t.len() < n { return false; }
        if !self.anchored_prefix && t.len() != n { return false; }
        let mut i = 0;
        while i < n { if t[i] != self.lit[i] { return false; } i += 1; }
        true
    }
}
