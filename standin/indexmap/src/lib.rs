//! Stand-in for `indexmap` 2.x (API surface used: IndexSet new/with_capacity/insert/is_empty/len/pop/extend/iter/
//! into_iter/contains; IndexMap with_capacity/insert/iter_mut/into_iter).
//! ASSUMED CONTRACT of the dependency: insertion-ordered set / map with unique keys; re-inserting an existing
//! key keeps its original position.  Model: Vec with linear duplicate check (hashbrown is a CBMC tarpit).
#[derive(Debug, Clone, PartialEq)]
pub struct IndexSet<T>(pub Vec<T>);
impl<T> Default for IndexSet<T> { fn default() -> Self { IndexSet(Vec::new()) } }
impl<T: PartialEq> IndexSet<T> {
    pub fn new() -> Self { IndexSet(Vec::new()) }
    pub fn with_capacity(_n: usize) -> Self { IndexSet(Vec::new()) }
    pub fn insert(&mut self, x: T) -> bool {
        let mut i = 0;
        while i < self.0.len() { if self.0[i] == x { return false; } i += 1; }
        self.0.push(x);
        true
    }
    pub fn contains(&self, x: &T) -> bool {
        let mut i = 0;
        while i < self.0.len() { if self.0[i] == *x { return true; } i += 1; }
        false
    }
    pub fn is_empty(&self) -> bool { self.0.is_empty() }
    pub fn len(&self) -> usize { self.0.len() }
    pub fn pop(&mut self) -> Option<T> { self.0.pop() }
    pub fn iter(&self) -> std::slice::Iter<'_, T> { self.0.iter() }
}
impl<T: PartialEq> Extend<T> for IndexSet<T> {
    fn extend<I: IntoIterator<Item = T>>(&mut self, it: I) { for x in it { self.insert(x); } }
}
impl<T> IntoIterator for IndexSet<T> { type Item = T; type IntoIter = std::vec::IntoIter<T>; fn into_iter(self) -> Self::IntoIter { self.0.into_iter() } }
impl<'a, T> IntoIterator for &'a IndexSet<T> { type Item = &'a T; type IntoIter = std::slice::Iter<'a, T>; fn into_iter(self) -> Self::IntoIter { self.0.iter() } }
impl<T: PartialEq> FromIterator<T> for IndexSet<T> { fn from_iter<I: IntoIterator<Item = T>>(it: I) -> Self { let mut s = IndexSet::new(); for x in it { s.insert(x); } s } }

#[derive(Debug)]
pub struct IndexMap<K, V>(pub Vec<(K, V)>);
impl<K, V> Default for IndexMap<K, V> { fn default() -> Self { IndexMap(Vec::new()) } }
pub struct IterMut<'a, K, V>(std::slice::IterMut<'a, (K, V)>);
impl<'a, K, V> Iterator for IterMut<'a, K, V> { type Item = (&'a K, &'a mut V); fn next(&mut self) -> Option<Self::Item> { self.0.next().map(|kv| (&kv.0, &mut kv.1)) } }
impl<K: PartialEq, V> IndexMap<K, V> {
    pub fn new() -> Self { IndexMap(Vec::new()) }
    pub fn with_capacity(_n: usize) -> Self { IndexMap(Vec::new()) }
    pub fn insert(&mut self, k: K, v: V) -> Option<V> {
        let mut i = 0;
        while i < self.0.len() {
            if self.0[i].0 == k { return Some(std::mem::replace(&mut self.0[i].1, v)); }
            i += 1;
        }
        self.0.push((k, v));
        None
    }
    pub fn iter_mut(&mut self) -> IterMut<'_, K, V> { IterMut(self.0.iter_mut()) }
    pub fn len(&self) -> usize { self.0.len() }
    pub fn is_empty(&self) -> bool { self.0.is_empty() }
}
impl<K, V> IntoIterator for IndexMap<K, V> { type Item = (K, V); type IntoIter = std::vec::IntoIter<(K, V)>; fn into_iter(self) -> Self::IntoIter { self.0.into_iter() } }
