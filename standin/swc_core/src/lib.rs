//! Reduced stand-in for the `swc_core` 18.0 dependency: exactly the API surface `swc-vue-jsx-visitor` uses.
//!
//! Purpose: let Kani/CBMC verify the *real, unmodified* source files of `/repo/visitor/src` (compiled whole against
//! this crate instead of the real `swc_core`, which CBMC cannot ingest: interned atoms, 15 000-site recursive
//! drop glue, macro-generated visitors).  Everything in here is an ASSUMED CONTRACT ON A DEPENDENCY and is
//! listed as such in every evidence file.
//!
//! Fidelity rules:
//!  * module paths, type names, variant names, field names and field order mirror swc_ecma_ast 8.1.0 /
//!    swc_common 8.0.1 / swc_ecma_utils 12.0.0 (checked by `tools/conformance.py` against the real crates);
//!  * enums carry a *subset* of the real variants (the real code reaches the others only through `_ =>` arms);
//!    structs carry *all* real fields except where noted `// reduced:`;
//!  * `Atom` is an inline, non-interned, 31-byte string (no heap: CBMC keeps concrete bytes concrete);
//!  * `SyntaxContext` is a bit set of marks; `Mark::new()` / `private_ident!` draw fresh marks from a counter,
//!    so two generated identifiers never share a context (the hygiene contract of swc);
//!  * `VisitMutWith::visit_mut_children_with` is a hand-written traversal in field declaration order, the order
//!    `swc_ecma_visit`'s generated code uses.
#![allow(dead_code, clippy::all)]

pub mod common {
    #[derive(Clone, Copy, PartialEq, Eq, Debug, Default, Hash, PartialOrd, Ord)]
    pub struct BytePos(pub u32);
    #[derive(Clone, Copy, PartialEq, Eq, Debug, Default, Hash)]
    pub struct Span { pub lo: BytePos, pub hi: BytePos }
    pub const DUMMY_SP: Span = Span { lo: BytePos(0), hi: BytePos(0) };
    impl Span {
        pub fn new(lo: BytePos, hi: BytePos) -> Span { Span { lo, hi } }
        /// real: a dummy span with a fresh, unique position that can carry a comment
        pub fn dummy_with_cmt() -> Span {
            let n = unsafe { CMT_COUNTER += 1; CMT_COUNTER };
            Span { lo: BytePos(0xF000_0000 + n), hi: BytePos(0xF000_0000 + n) }
        }
    }
    pub static mut CMT_COUNTER: u32 = 0;
    pub trait Spanned { fn span(&self) -> Span; }
    impl Spanned for Span { fn span(&self) -> Span { *self } }
    impl<T: Spanned> Spanned for Option<T> { fn span(&self) -> Span { match self { Some(x) => x.span(), None => DUMMY_SP } } }
    impl<T: Spanned> Spanned for Box<T> { fn span(&self) -> Span { (**self).span() } }

    /// real: an interned hygiene mark.  Model: index of a bit in `SyntaxContext`.
    #[derive(Clone, Copy, PartialEq, Eq, Debug, Hash)]
    pub struct Mark(pub u32);
    pub static mut MARK_COUNTER: u32 = 0;
    impl Mark {
        /// fresh mark, distinct from every mark created before (bits 0..=31, wraps never in a harness)
        pub fn new() -> Mark { unsafe { MARK_COUNTER += 1; Mark(MARK_COUNTER) } }
        pub fn root() -> Mark { Mark(0) }
    }
    /// real: interned chain of marks.  Model: set of marks as a bit mask.
    #[derive(Clone, Copy, PartialEq, Eq, Debug, Default, Hash)]
    pub struct SyntaxContext(pub u64);
    impl SyntaxContext {
        pub const fn empty() -> SyntaxContext { SyntaxContext(0) }
        pub fn apply_mark(self, m: Mark) -> SyntaxContext { SyntaxContext(self.0 | (1u64 << (m.0 & 63))) }
        pub fn has_mark(self, m: Mark) -> bool { self.0 & (1u64 << (m.0 & 63)) != 0 }
    }
    pub trait EqIgnoreSpan { fn eq_ignore_span(&self, other: &Self) -> bool; }

    pub mod comments {
        use super::{BytePos, Span};
        use crate::ecma::atoms::Atom;
        #[derive(Clone, Copy, PartialEq, Eq, Debug)]
        pub enum CommentKind { Line, Block }
        #[derive(Clone, PartialEq, Debug)]
        pub struct Comment { pub kind: CommentKind, pub span: Span, pub text: Atom }
        /// reduced: only the two methods the visitor calls
        pub trait Comments {
            fn with_leading<F, Ret>(&self, pos: BytePos, f: F) -> Ret where Self: Sized, F: FnOnce(&[Comment]) -> Ret;
            fn add_pure_comment(&self, pos: BytePos);
        }
        /// Harness-side comment store: leading comments keyed by position.
        pub struct SingleThreadedComments { pub leading: Vec<(BytePos, Vec<Comment>)>, pub pure: std::cell::Cell<u32> }
        impl SingleThreadedComments { pub fn new() -> Self { SingleThreadedComments { leading: Vec::new(), pure: std::cell::Cell::new(0) } } }
        impl Comments for SingleThreadedComments {
            fn with_leading<F, Ret>(&self, pos: BytePos, f: F) -> Ret where F: FnOnce(&[Comment]) -> Ret {
                let mut i = 0;
                while i < self.leading.len() {
                    if self.leading[i].0 == pos { return f(&self.leading[i].1); }
                    i += 1;
                }
                f(&[])
            }
            fn add_pure_comment(&self, _pos: BytePos) { self.pure.set(self.pure.get() + 1); }
        }
        /// Harness-side comment store backed by GLOBALS (CBMC keeps globals concrete; data behind `Option<C>` is not):
        /// up to two leading comments at one position.
        pub static mut G_POS: u32 = 0;
        pub static mut G_N: usize = 0;
        pub static mut G_TEXT0: Atom = Atom::empty();
        pub static mut G_TEXT1: Atom = Atom::empty();
        pub static mut G_PURE: u32 = 0;
        pub struct GlobalComments;
        impl Comments for GlobalComments {
            fn with_leading<F, Ret>(&self, pos: BytePos, f: F) -> Ret where F: FnOnce(&[Comment]) -> Ret {
                unsafe {
                    if pos.0 == G_POS && G_N > 0 {
                        let arr = [Comment { kind: CommentKind::Block, span: Span { lo: pos, hi: pos }, text: G_TEXT0 }, Comment { kind: CommentKind::Block, span: Span { lo: pos, hi: pos }, text: G_TEXT1 }];
                        if G_N == 1 { f(&arr[..1]) } else { f(&arr[..2]) }
                    } else { f(&[]) }
                }
            }
            fn add_pure_comment(&self, _pos: BytePos) { unsafe { G_PURE += 1; } }
        }
        /// `Option<C>`-free "no comments" store
        pub struct NoopComments;
        impl Comments for NoopComments {
            fn with_leading<F, Ret>(&self, _pos: BytePos, f: F) -> Ret where F: FnOnce(&[Comment]) -> Ret { f(&[]) }
            fn add_pure_comment(&self, _pos: BytePos) {}
        }
    }
}

pub mod plugin {
    pub mod errors {
        use crate::common::Span;
        /// real: rustc-style diagnostics handler in a scoped thread local.  Model: a counter of reported errors.
        pub struct Handler;
        pub static mut ERRORS: u32 = 0;
        impl Handler { pub fn span_err(&self, _sp: Span, _msg: &str) { unsafe { ERRORS += 1; } } }
        pub struct HandlerKey;
        impl HandlerKey { pub fn with<R>(&'static self, f: impl FnOnce(&Handler) -> R) -> R { f(&Handler) } }
        pub static HANDLER: HandlerKey = HandlerKey;
        pub fn error_count() -> u32 { unsafe { ERRORS } }
    }
}

pub mod ecma {
    pub mod atoms {
        use std::{borrow::Cow, fmt, ops::Deref};
        pub const ATOM_CAP: usize = 31;
        /// Inline, non-interned atom (<= 31 bytes).  Equality, ordering and hashing are those of the text,
        /// which is the observable contract of `hstr::Atom`.
        #[derive(Clone, Copy)]
        pub struct Atom { len: u8, buf: [u8; ATOM_CAP] }
        impl Atom {
            pub fn new_inline(s: &str) -> Self {
                let b = s.as_bytes();
                assert!(b.len() <= ATOM_CAP, "stand-in Atom capacity exceeded");
                let mut buf = [0u8; ATOM_CAP];
                let n = b.len();
                // unrolled copy: no loop to unwind, no memcpy (CBMC keeps the bytes of literals concrete this way)
                if n > 0 { buf[0] = b[0]; }
                if n > 1 { buf[1] = b[1]; }
                if n > 2 { buf[2] = b[2]; }
                if n > 3 { buf[3] = b[3]; }
                if n > 4 { buf[4] = b[4]; }
                if n > 5 { buf[5] = b[5]; }
                if n > 6 { buf[6] = b[6]; }
                if n > 7 { buf[7] = b[7]; }
                if n > 8 { buf[8] = b[8]; }
                if n > 9 { buf[9] = b[9]; }
                if n > 10 { buf[10] = b[10]; }
                if n > 11 { buf[11] = b[11]; }
                if n > 12 { buf[12] = b[12]; }
                if n > 13 { buf[13] = b[13]; }
                if n > 14 { buf[14] = b[14]; }
                if n > 15 { buf[15] = b[15]; }
                if n > 16 { buf[16] = b[16]; }
                if n > 17 { buf[17] = b[17]; }
                if n > 18 { buf[18] = b[18]; }
                if n > 19 { buf[19] = b[19]; }
                if n > 20 { buf[20] = b[20]; }
                if n > 21 { buf[21] = b[21]; }
                if n > 22 { buf[22] = b[22]; }
                if n > 23 { buf[23] = b[23]; }
                if n > 24 { buf[24] = b[24]; }
                if n > 25 { buf[25] = b[25]; }
                if n > 26 { buf[26] = b[26]; }
                if n > 27 { buf[27] = b[27]; }
                if n > 28 { buf[28] = b[28]; }
                if n > 29 { buf[29] = b[29]; }
                if n > 30 { buf[30] = b[30]; }
                Atom { len: n as u8, buf }
            }
            /// harness constructor: symbolic bytes with a given length (caller guarantees ASCII)
            pub fn from_raw(len: u8, buf: [u8; ATOM_CAP]) -> Self { Atom { len, buf } }
            pub fn as_str(&self) -> &str { unsafe { std::str::from_utf8_unchecked(&self.buf[..self.len as usize]) } }
        }
        impl Atom { pub const fn empty() -> Self { Atom { len: 0, buf: [0u8; ATOM_CAP] } } }
        impl Default for Atom { fn default() -> Self { Atom::empty() } }
        impl Deref for Atom { type Target = str; fn deref(&self) -> &str { self.as_str() } }
        impl AsRef<str> for Atom { fn as_ref(&self) -> &str { self.as_str() } }
        impl From<&str> for Atom { fn from(s: &str) -> Self { Atom::new_inline(s) } }
        impl From<&&str> for Atom { fn from(s: &&str) -> Self { Atom::new_inline(s) } }
        impl From<String> for Atom { fn from(s: String) -> Self { Atom::new_inline(&s) } }
        impl From<&String> for Atom { fn from(s: &String) -> Self { Atom::new_inline(s) } }
        impl<'a> From<Cow<'a, str>> for Atom { fn from(s: Cow<'a, str>) -> Self { Atom::new_inline(&s) } }
        impl From<&Atom> for Atom { fn from(s: &Atom) -> Self { *s } }
        impl PartialEq for Atom { fn eq(&self, o: &Atom) -> bool { self.as_str() == o.as_str() } }
        impl Eq for Atom {}
        impl PartialOrd for Atom { fn partial_cmp(&self, o: &Atom) -> Option<std::cmp::Ordering> { Some(self.cmp(o)) } }
        impl Ord for Atom { fn cmp(&self, o: &Atom) -> std::cmp::Ordering { self.as_str().cmp(o.as_str()) } }
        impl std::hash::Hash for Atom { fn hash<H: std::hash::Hasher>(&self, h: &mut H) { self.as_str().hash(h) } }
        impl PartialEq<str> for Atom { fn eq(&self, o: &str) -> bool { self.as_str() == o } }
        impl PartialEq<&str> for Atom { fn eq(&self, o: &&str) -> bool { self.as_str() == *o } }
        impl PartialEq<Atom> for str { fn eq(&self, o: &Atom) -> bool { self == o.as_str() } }
        impl fmt::Display for Atom { fn fmt(&self, f: &mut fmt::Formatter) -> fmt::Result { f.write_str(self.as_str()) } }
        impl fmt::Debug for Atom { fn fmt(&self, f: &mut fmt::Formatter) -> fmt::Result { fmt::Debug::fmt(self.as_str(), f) } }
        pub use crate::atom;
    }

    pub mod utils {
        pub use crate::{private_ident, quote_ident, quote_str};
    }

    pub mod visit {
        use super::ast::*;
        /// reduced: the ten hooks the visitor overrides; defaults recurse, as in swc_ecma_visit
        pub trait VisitMut {
            fn visit_mut_module(&mut self, n: &mut Module) { n.visit_mut_children_with(self) }
            fn visit_mut_stmts(&mut self, n: &mut Vec<Stmt>) { n.visit_mut_children_with(self) }
            fn visit_mut_arrow_expr(&mut self, n: &mut ArrowExpr) { n.visit_mut_children_with(self) }
            fn visit_mut_expr(&mut self, n: &mut Expr) { n.visit_mut_children_with(self) }
            fn visit_mut_jsx_opening_element(&mut self, n: &mut JSXOpeningElement) { n.visit_mut_children_with(self) }
            fn visit_mut_import_decl(&mut self, n: &mut ImportDecl) { n.visit_mut_children_with(self) }
            fn visit_mut_ts_interface_decl(&mut self, n: &mut TsInterfaceDecl) { n.visit_mut_children_with(self) }
            fn visit_mut_ts_type_alias_decl(&mut self, n: &mut TsTypeAliasDecl) { n.visit_mut_children_with(self) }
            fn visit_mut_call_expr(&mut self, n: &mut CallExpr) { n.visit_mut_children_with(self) }
            fn visit_mut_var_declarator(&mut self, n: &mut VarDeclarator) { n.visit_mut_children_with(self) }
        }
        pub trait VisitMutWith<V: ?Sized + VisitMut> {
            fn visit_mut_children_with(&mut self, v: &mut V);
        }
        // ---- traversal model: children in field declaration order ----
        fn v_expr<V: ?Sized + VisitMut>(v: &mut V, e: &mut Expr) { v.visit_mut_expr(e) }
        fn v_opt_expr<V: ?Sized + VisitMut>(v: &mut V, e: &mut Option<Box<Expr>>) { if let Some(e) = e { v.visit_mut_expr(e) } }
        fn v_eos<V: ?Sized + VisitMut>(v: &mut V, e: &mut ExprOrSpread) { v.visit_mut_expr(&mut e.expr) }
        fn v_pat<V: ?Sized + VisitMut>(v: &mut V, p: &mut Pat) {
            match p {
                Pat::Ident(_) => {}
                Pat::Array(a) => { for e in a.elems.iter_mut() { if let Some(p) = e { v_pat(v, p) } } }
                Pat::Rest(r) => v_pat(v, &mut r.arg),
                Pat::Object(_) => {}
                Pat::Assign(a) => { v_pat(v, &mut a.left); v.visit_mut_expr(&mut a.right) }
                Pat::Expr(e) => v.visit_mut_expr(e),
            }
        }
        fn v_block<V: ?Sized + VisitMut>(v: &mut V, b: &mut BlockStmt) { v.visit_mut_stmts(&mut b.stmts) }
        fn v_function<V: ?Sized + VisitMut>(v: &mut V, f: &mut Function) {
            for p in f.params.iter_mut() { v_pat(v, &mut p.pat) }
            if let Some(b) = &mut f.body { v_block(v, b) }
        }
        fn v_prop_name<V: ?Sized + VisitMut>(v: &mut V, k: &mut PropName) { if let PropName::Computed(c) = k { v.visit_mut_expr(&mut c.expr) } }
        fn v_prop<V: ?Sized + VisitMut>(v: &mut V, p: &mut Prop) {
            match p {
                Prop::Shorthand(_) => {}
                Prop::KeyValue(kv) => { v_prop_name(v, &mut kv.key); v.visit_mut_expr(&mut kv.value) }
                Prop::Getter(g) => { v_prop_name(v, &mut g.key); if let Some(b) = &mut g.body { v_block(v, b) } }
                Prop::Method(m) => { v_prop_name(v, &mut m.key); v_function(v, &mut m.function) }
            }
        }
        fn v_var_decl<V: ?Sized + VisitMut>(v: &mut V, d: &mut VarDecl) { for d in d.decls.iter_mut() { v.visit_mut_var_declarator(d) } }
        fn v_decl<V: ?Sized + VisitMut>(v: &mut V, d: &mut Decl) {
            match d {
                Decl::Fn(f) => v_function(v, &mut f.function),
                Decl::Var(d) => v_var_decl(v, d),
                Decl::TsInterface(i) => v.visit_mut_ts_interface_decl(i),
                Decl::TsTypeAlias(a) => v.visit_mut_ts_type_alias_decl(a),
            }
        }
        fn v_stmt<V: ?Sized + VisitMut>(v: &mut V, s: &mut Stmt) {
            match s {
                Stmt::Block(b) => v_block(v, b),
                Stmt::Empty(_) => {}
                Stmt::Return(r) => v_opt_expr(v, &mut r.arg),
                Stmt::Decl(d) => v_decl(v, d),
                Stmt::Expr(e) => v.visit_mut_expr(&mut e.expr),
            }
        }
        fn v_jsx_attr_value<V: ?Sized + VisitMut>(v: &mut V, a: &mut JSXAttrValue) {
            match a {
                JSXAttrValue::Lit(_) => {}
                JSXAttrValue::JSXExprContainer(c) => v_jsx_expr(v, &mut c.expr),
                JSXAttrValue::JSXElement(e) => v_jsx_element(v, e),
                JSXAttrValue::JSXFragment(f) => v_jsx_children(v, &mut f.children),
            }
        }
        fn v_jsx_expr<V: ?Sized + VisitMut>(v: &mut V, e: &mut JSXExpr) { if let JSXExpr::Expr(e) = e { v.visit_mut_expr(e) } }
        fn v_jsx_children<V: ?Sized + VisitMut>(v: &mut V, cs: &mut Vec<JSXElementChild>) {
            for c in cs.iter_mut() {
                match c {
                    JSXElementChild::JSXText(_) => {}
                    JSXElementChild::JSXExprContainer(c) => v_jsx_expr(v, &mut c.expr),
                    JSXElementChild::JSXSpreadChild(s) => v.visit_mut_expr(&mut s.expr),
                    JSXElementChild::JSXElement(e) => v_jsx_element(v, e),
                    JSXElementChild::JSXFragment(f) => v_jsx_children(v, &mut f.children),
                }
            }
        }
        pub(crate) fn v_jsx_element<V: ?Sized + VisitMut>(v: &mut V, e: &mut JSXElement) {
            v.visit_mut_jsx_opening_element(&mut e.opening);
            v_jsx_children(v, &mut e.children);
        }
        impl<V: ?Sized + VisitMut> VisitMutWith<V> for Module {
            fn visit_mut_children_with(&mut self, v: &mut V) {
                for item in self.body.iter_mut() {
                    match item {
                        ModuleItem::ModuleDecl(ModuleDecl::Import(i)) => v.visit_mut_import_decl(i),
                        ModuleItem::ModuleDecl(ModuleDecl::ExportDecl(d)) => v_decl(v, &mut d.decl),
                        ModuleItem::ModuleDecl(ModuleDecl::ExportDefaultExpr(d)) => v.visit_mut_expr(&mut d.expr),
                        ModuleItem::Stmt(s) => v_stmt(v, s),
                    }
                }
            }
        }
        impl<V: ?Sized + VisitMut> VisitMutWith<V> for Vec<Stmt> {
            fn visit_mut_children_with(&mut self, v: &mut V) { for s in self.iter_mut() { v_stmt(v, s) } }
        }
        impl<V: ?Sized + VisitMut> VisitMutWith<V> for ArrowExpr {
            fn visit_mut_children_with(&mut self, v: &mut V) {
                for p in self.params.iter_mut() { v_pat(v, p) }
                match &mut *self.body {
                    BlockStmtOrExpr::BlockStmt(b) => v_block(v, b),
                    BlockStmtOrExpr::Expr(e) => v.visit_mut_expr(e),
                }
            }
        }
        impl<V: ?Sized + VisitMut> VisitMutWith<V> for Expr {
            fn visit_mut_children_with(&mut self, v: &mut V) {
                match self {
                    Expr::This(_) | Expr::Ident(_) | Expr::Lit(_) | Expr::Invalid(_) => {}
                    Expr::Array(a) => { for e in a.elems.iter_mut() { if let Some(e) = e { v_eos(v, e) } } }
                    Expr::Object(o) => {
                        for p in o.props.iter_mut() {
                            match p {
                                PropOrSpread::Spread(s) => v.visit_mut_expr(&mut s.expr),
                                PropOrSpread::Prop(p) => v_prop(v, p),
                            }
                        }
                    }
                    Expr::Fn(f) => v_function(v, &mut f.function),
                    Expr::Unary(u) => v.visit_mut_expr(&mut u.arg),
                    Expr::Bin(b) => { v.visit_mut_expr(&mut b.left); v.visit_mut_expr(&mut b.right) }
                    Expr::Assign(a) => {
                        match &mut a.left {
                            AssignTarget::Simple(SimpleAssignTarget::Ident(_)) => {}
                            AssignTarget::Simple(SimpleAssignTarget::Member(m)) => v_member(v, m),
                            AssignTarget::Simple(SimpleAssignTarget::Paren(p)) => v.visit_mut_expr(&mut p.expr),
                        }
                        v.visit_mut_expr(&mut a.right)
                    }
                    Expr::Member(m) => v_member(v, m),
                    Expr::Cond(c) => { v.visit_mut_expr(&mut c.test); v.visit_mut_expr(&mut c.cons); v.visit_mut_expr(&mut c.alt) }
                    Expr::Call(c) => v.visit_mut_call_expr(c),
                    Expr::Arrow(a) => v.visit_mut_arrow_expr(a),
                    Expr::Paren(p) => v.visit_mut_expr(&mut p.expr),
                    Expr::JSXMember(_) | Expr::JSXNamespacedName(_) | Expr::JSXEmpty(_) => {}
                    Expr::JSXElement(e) => v_jsx_element(v, e),
                    Expr::JSXFragment(f) => v_jsx_children(v, &mut f.children),
                }
            }
        }
        fn v_member<V: ?Sized + VisitMut>(v: &mut V, m: &mut MemberExpr) {
            v.visit_mut_expr(&mut m.obj);
            if let MemberProp::Computed(c) = &mut m.prop { v.visit_mut_expr(&mut c.expr) }
        }
        impl<V: ?Sized + VisitMut> VisitMutWith<V> for JSXOpeningElement {
            fn visit_mut_children_with(&mut self, v: &mut V) {
                for a in self.attrs.iter_mut() {
                    match a {
                        JSXAttrOrSpread::JSXAttr(a) => { if let Some(val) = &mut a.value { v_jsx_attr_value(v, val) } }
                        JSXAttrOrSpread::SpreadElement(s) => v.visit_mut_expr(&mut s.expr),
                    }
                }
            }
        }
        impl<V: ?Sized + VisitMut> VisitMutWith<V> for ImportDecl { fn visit_mut_children_with(&mut self, _v: &mut V) {} }
        impl<V: ?Sized + VisitMut> VisitMutWith<V> for TsInterfaceDecl { fn visit_mut_children_with(&mut self, _v: &mut V) {} }
        impl<V: ?Sized + VisitMut> VisitMutWith<V> for TsTypeAliasDecl { fn visit_mut_children_with(&mut self, _v: &mut V) {} }
        impl<V: ?Sized + VisitMut> VisitMutWith<V> for CallExpr {
            fn visit_mut_children_with(&mut self, v: &mut V) {
                if let Callee::Expr(e) = &mut self.callee { v.visit_mut_expr(e) }
                for a in self.args.iter_mut() { v_eos(v, a) }
            }
        }
        impl<V: ?Sized + VisitMut> VisitMutWith<V> for VarDeclarator {
            fn visit_mut_children_with(&mut self, v: &mut V) { v_pat(v, &mut self.name); v_opt_expr(v, &mut self.init) }
        }
    }

    pub mod ast {
        pub use crate::op;
        pub use crate::common::SyntaxContext;
        use crate::common::{EqIgnoreSpan, Mark, Span, Spanned, DUMMY_SP};
        use super::atoms::Atom;

        // Clone of AST nodes: derived (deep) by default; bitwise copy under feature `bitclone`
        // (sound only when nothing is dropped or mutated in place; see DESIGN.md).
        #[cfg(feature = "bitclone")]
        macro_rules! node { ($(#[$m:meta])* $v:vis struct $n:ident $($rest:tt)*) => { $(#[$m])* #[derive(PartialEq, Debug)] $v struct $n $($rest)* impl Clone for $n { fn clone(&self) -> Self { unsafe { std::ptr::read(self) } } } };
                            ($(#[$m:meta])* $v:vis enum $n:ident $($rest:tt)*) => { $(#[$m])* #[derive(PartialEq, Debug)] #[repr(u8)] $v enum $n $($rest)* impl Clone for $n { fn clone(&self) -> Self { unsafe { std::ptr::read(self) } } } }; }
        #[cfg(not(feature = "bitclone"))]
        macro_rules! node { ($(#[$m:meta])* $v:vis struct $n:ident $($rest:tt)*) => { $(#[$m])* #[derive(PartialEq, Debug, Clone)] $v struct $n $($rest)* };
                            ($(#[$m:meta])* $v:vis enum $n:ident $($rest:tt)*) => { $(#[$m])* #[derive(PartialEq, Debug, Clone)] #[repr(u8)] $v enum $n $($rest)* }; }

        // ---------------- identifiers, literals ----------------
        node! { pub struct Ident { pub span: Span, pub ctxt: SyntaxContext, pub sym: Atom, pub optional: bool } }
        node! { pub struct IdentName { pub span: Span, pub sym: Atom } }
        node! { pub struct BindingIdent { pub id: Ident, pub type_ann: Option<Box<TsTypeAnn>> } }
        pub type Id = (Atom, SyntaxContext);
        impl Ident {
            pub fn new(sym: Atom, span: Span, ctxt: SyntaxContext) -> Ident { Ident { span, ctxt, sym, optional: false } }
            pub fn new_private(sym: Atom, span: Span) -> Ident { Ident::new(sym, span, SyntaxContext::empty().apply_mark(Mark::new())) }
            pub fn new_no_ctxt(sym: Atom, span: Span) -> Ident { Ident::new(sym, span, SyntaxContext::empty()) }
            pub fn to_id(&self) -> Id { (self.sym, self.ctxt) }
            /// real: `$`, `_`, ASCII letter, or Unicode ID_Start.  Model: non-ASCII characters count as ID_Start / ID_Continue.
            pub fn is_valid_start(c: char) -> bool { c == '$' || c == '_' || c.is_ascii_alphabetic() || c > '\x7F' }
            pub fn is_valid_continue(c: char) -> bool { c == '$' || c == '_' || c == '\u{200c}' || c == '\u{200d}' || c.is_ascii_alphanumeric() || c > '\x7F' }
        }
        impl IdentName { pub fn new(sym: Atom, span: Span) -> IdentName { IdentName { span, sym } } }
        impl From<IdentName> for Ident { fn from(i: IdentName) -> Self { Ident { span: i.span, ctxt: SyntaxContext::empty(), sym: i.sym, optional: false } } }
        impl From<Ident> for IdentName { fn from(i: Ident) -> Self { IdentName { span: i.span, sym: i.sym } } }
        impl From<BindingIdent> for Ident { fn from(i: BindingIdent) -> Self { i.id } }
        impl std::ops::Deref for BindingIdent { type Target = Ident; fn deref(&self) -> &Ident { &self.id } }
        node! { pub struct Str { pub span: Span, pub value: Atom, pub raw: Option<Atom> } }
        node! { pub struct Bool { pub span: Span, pub value: bool } }
        node! { pub struct Null { pub span: Span } }
        node! { pub struct Number { pub span: Span, pub value: f64, pub raw: Option<Atom> } }
        node! { pub struct BigIntValue(pub i64); }
        node! { pub struct BigInt { pub span: Span, pub value: Box<BigIntValue>, pub raw: Option<Atom> } }
        node! { pub enum Lit { Str(Str), Bool(Bool), Null(Null), Num(Number), BigInt(BigInt) } }
        node! { pub struct Invalid { pub span: Span } }
        node! { pub struct ThisExpr { pub span: Span } }

        // ---------------- expressions ----------------
        node! { pub struct ExprOrSpread { pub spread: Option<Span>, pub expr: Box<Expr> } }
        node! { pub struct ArrayLit { pub span: Span, pub elems: Vec<Option<ExprOrSpread>> } }
        node! { pub struct ObjectLit { pub span: Span, pub props: Vec<PropOrSpread> } }
        #[derive(PartialEq, Eq, Debug, Clone, Copy)] pub enum BinaryOp { LogicalOr, LogicalAnd, EqEqEq, Add }
        #[derive(PartialEq, Eq, Debug, Clone, Copy)] pub enum UnaryOp { TypeOf, Bang, Void }
        #[derive(PartialEq, Eq, Debug, Clone, Copy)] pub enum AssignOp { Assign }
        node! { pub struct BinExpr { pub span: Span, pub op: BinaryOp, pub left: Box<Expr>, pub right: Box<Expr> } }
        node! { pub struct UnaryExpr { pub span: Span, pub op: UnaryOp, pub arg: Box<Expr> } }
        node! { pub struct ParenExpr { pub span: Span, pub expr: Box<Expr> } }
        node! { pub struct CondExpr { pub span: Span, pub test: Box<Expr>, pub cons: Box<Expr>, pub alt: Box<Expr> } }
        node! { pub struct ComputedPropName { pub span: Span, pub expr: Box<Expr> } }
        node! { pub enum MemberProp { Ident(IdentName), Computed(ComputedPropName) } }
        node! { pub struct MemberExpr { pub span: Span, pub obj: Box<Expr>, pub prop: MemberProp } }
        node! { pub enum SimpleAssignTarget { Ident(BindingIdent), Member(MemberExpr), Paren(ParenExpr) } }
        node! { pub enum AssignTarget { Simple(SimpleAssignTarget) } }
        node! { pub struct AssignExpr { pub span: Span, pub op: AssignOp, pub left: AssignTarget, pub right: Box<Expr> } }
        node! { pub enum Callee { Super(Span), Import(Span), Expr(Box<Expr>) } }
        impl Callee { pub fn as_expr(&self) -> Option<&Box<Expr>> { if let Callee::Expr(e) = self { Some(e) } else { None } } }
        node! { pub struct CallExpr { pub span: Span, pub ctxt: SyntaxContext, pub callee: Callee, pub args: Vec<ExprOrSpread>, pub type_args: Option<Box<TsTypeParamInstantiation>> } }
        impl Default for CallExpr { fn default() -> Self { CallExpr { span: DUMMY_SP, ctxt: SyntaxContext::empty(), callee: Callee::Super(DUMMY_SP), args: Vec::new(), type_args: None } } }
        node! { pub enum BlockStmtOrExpr { BlockStmt(BlockStmt), Expr(Box<Expr>) } }
        node! { pub struct ArrowExpr { pub span: Span, pub ctxt: SyntaxContext, pub params: Vec<Pat>, pub body: Box<BlockStmtOrExpr>, pub is_async: bool, pub is_generator: bool, pub type_params: Option<Box<TsTypeParamDecl>>, pub return_type: Option<Box<TsTypeAnn>> } }
        /// real `Default for ArrowExpr` allocates a default body; every use in the visitor overrides `body`,
        /// so the default body here is a never-read placeholder built without heap traffic beyond one Box.
        impl Default for ArrowExpr { fn default() -> Self { ArrowExpr { span: DUMMY_SP, ctxt: SyntaxContext::empty(), params: Vec::new(), body: Box::new(BlockStmtOrExpr::BlockStmt(BlockStmt::default())), is_async: false, is_generator: false, type_params: None, return_type: None } } }
        node! { pub struct FnExpr { pub ident: Option<Ident>, pub function: Box<Function> } }
        node! { pub struct Decorator { pub span: Span, pub expr: Box<Expr> } }
        node! { pub struct Param { pub span: Span, pub decorators: Vec<Decorator>, pub pat: Pat } }
        node! { pub struct Function { pub params: Vec<Param>, pub decorators: Vec<Decorator>, pub span: Span, pub ctxt: SyntaxContext, pub body: Option<BlockStmt>, pub is_generator: bool, pub is_async: bool, pub type_params: Option<Box<TsTypeParamDecl>>, pub return_type: Option<Box<TsTypeAnn>> } }
        impl Default for Function { fn default() -> Self { Function { params: Vec::new(), decorators: Vec::new(), span: DUMMY_SP, ctxt: SyntaxContext::empty(), body: None, is_generator: false, is_async: false, type_params: None, return_type: None } } }
        node! { pub enum Expr {
            This(ThisExpr), Array(ArrayLit), Object(ObjectLit), Fn(FnExpr), Unary(UnaryExpr), Bin(BinExpr), Assign(AssignExpr),
            Member(MemberExpr), Cond(CondExpr), Call(CallExpr), Ident(Ident), Lit(Lit), Arrow(ArrowExpr), Paren(ParenExpr),
            JSXMember(JSXMemberExpr), JSXNamespacedName(JSXNamespacedName), JSXEmpty(JSXEmptyExpr), JSXElement(Box<JSXElement>),
            JSXFragment(JSXFragment), Invalid(Invalid)
        } }
        impl Expr {
            pub fn as_array(&self) -> Option<&ArrayLit> { if let Expr::Array(a) = self { Some(a) } else { None } }
            pub fn array(self) -> Option<ArrayLit> { if let Expr::Array(a) = self { Some(a) } else { None } }
            pub fn as_lit(&self) -> Option<&Lit> { if let Expr::Lit(a) = self { Some(a) } else { None } }
            pub fn is_lit(&self) -> bool { matches!(self, Expr::Lit(..)) }
            pub fn as_ident(&self) -> Option<&Ident> { if let Expr::Ident(a) = self { Some(a) } else { None } }
            pub fn as_call(&self) -> Option<&CallExpr> { if let Expr::Call(a) = self { Some(a) } else { None } }
            pub fn as_object(&self) -> Option<&ObjectLit> { if let Expr::Object(a) = self { Some(a) } else { None } }
            // the `is_*` predicates swc_ecma_ast generates for every variant (real: `#[ast_node]` / `is_macro::Is`)
            pub fn is_this(&self) -> bool { matches!(self, Expr::This(..)) }
            pub fn is_array(&self) -> bool { matches!(self, Expr::Array(..)) }
            pub fn is_object(&self) -> bool { matches!(self, Expr::Object(..)) }
            pub fn is_fn_expr(&self) -> bool { matches!(self, Expr::Fn(..)) }
            pub fn is_unary(&self) -> bool { matches!(self, Expr::Unary(..)) }
            pub fn is_bin(&self) -> bool { matches!(self, Expr::Bin(..)) }
            pub fn is_assign(&self) -> bool { matches!(self, Expr::Assign(..)) }
            pub fn is_member(&self) -> bool { matches!(self, Expr::Member(..)) }
            pub fn is_cond(&self) -> bool { matches!(self, Expr::Cond(..)) }
            pub fn is_call(&self) -> bool { matches!(self, Expr::Call(..)) }
            pub fn is_ident(&self) -> bool { matches!(self, Expr::Ident(..)) }
            pub fn is_arrow(&self) -> bool { matches!(self, Expr::Arrow(..)) }
            pub fn is_paren(&self) -> bool { matches!(self, Expr::Paren(..)) }
            pub fn is_jsx_element(&self) -> bool { matches!(self, Expr::JSXElement(..)) }
            pub fn is_jsx_fragment(&self) -> bool { matches!(self, Expr::JSXFragment(..)) }
            pub fn is_invalid(&self) -> bool { matches!(self, Expr::Invalid(..)) }
            pub fn as_member(&self) -> Option<&MemberExpr> { if let Expr::Member(a) = self { Some(a) } else { None } }
            pub fn as_arrow(&self) -> Option<&ArrowExpr> { if let Expr::Arrow(a) = self { Some(a) } else { None } }
            pub fn as_bin(&self) -> Option<&BinExpr> { if let Expr::Bin(a) = self { Some(a) } else { None } }
            pub fn as_unary(&self) -> Option<&UnaryExpr> { if let Expr::Unary(a) = self { Some(a) } else { None } }
        }

        // ---------------- object properties ----------------
        node! { pub struct SpreadElement { pub dot3_token: Span, pub expr: Box<Expr> } }
        node! { pub enum PropName { Ident(IdentName), Str(Str), Num(Number), Computed(ComputedPropName), BigInt(BigInt) } }
        impl PropName { pub fn as_ident(&self) -> Option<&IdentName> { if let PropName::Ident(i) = self { Some(i) } else { None } } }
        node! { pub struct KeyValueProp { pub key: PropName, pub value: Box<Expr> } }
        node! { pub struct GetterProp { pub span: Span, pub key: PropName, pub type_ann: Option<Box<TsTypeAnn>>, pub body: Option<BlockStmt> } }
        node! { pub struct MethodProp { pub key: PropName, pub function: Box<Function> } }
        node! { pub enum Prop { Shorthand(Ident), KeyValue(KeyValueProp), Getter(GetterProp), Method(MethodProp) } }
        impl Prop { pub fn as_key_value(&self) -> Option<&KeyValueProp> { if let Prop::KeyValue(kv) = self { Some(kv) } else { None } } }
        node! { pub enum PropOrSpread { Spread(SpreadElement), Prop(Box<Prop>) } }
        impl PropOrSpread { pub fn as_prop(&self) -> Option<&Box<Prop>> { if let PropOrSpread::Prop(p) = self { Some(p) } else { None } } }
        impl EqIgnoreSpan for PropName {
            /// real: derived structural equality ignoring spans.  Model: text equality for Ident/Str, value equality
            /// for Num/BigInt, expression equality (span-sensitive) for Computed.
            fn eq_ignore_span(&self, o: &PropName) -> bool {
                match (self, o) {
                    (PropName::Ident(a), PropName::Ident(b)) => a.sym == b.sym,
                    (PropName::Str(a), PropName::Str(b)) => a.value == b.value,
                    (PropName::Num(a), PropName::Num(b)) => a.value == b.value,
                    (PropName::BigInt(a), PropName::BigInt(b)) => a.value == b.value,
                    (PropName::Computed(a), PropName::Computed(b)) => a.expr == b.expr,
                    _ => false,
                }
            }
        }

        // ---------------- patterns, statements, declarations ----------------
        node! { pub struct ArrayPat { pub span: Span, pub elems: Vec<Option<Pat>>, pub optional: bool, pub type_ann: Option<Box<TsTypeAnn>> } }
        node! { pub struct ObjectPat { pub span: Span, pub optional: bool, pub type_ann: Option<Box<TsTypeAnn>> } } // reduced: `props` omitted (never read by the visitor)
        node! { pub struct RestPat { pub span: Span, pub dot3_token: Span, pub arg: Box<Pat>, pub type_ann: Option<Box<TsTypeAnn>> } }
        node! { pub struct AssignPat { pub span: Span, pub left: Box<Pat>, pub right: Box<Expr> } }
        node! { pub enum Pat { Ident(BindingIdent), Array(ArrayPat), Rest(RestPat), Object(ObjectPat), Assign(AssignPat), Expr(Box<Expr>) } }
        node! { pub struct ReturnStmt { pub span: Span, pub arg: Option<Box<Expr>> } }
        node! { pub struct ExprStmt { pub span: Span, pub expr: Box<Expr> } }
        node! { pub struct EmptyStmt { pub span: Span } }
        node! { pub struct BlockStmt { pub span: Span, pub ctxt: SyntaxContext, pub stmts: Vec<Stmt> } }
        impl Default for BlockStmt { fn default() -> Self { BlockStmt { span: DUMMY_SP, ctxt: SyntaxContext::empty(), stmts: Vec::new() } } }
        #[derive(PartialEq, Eq, Debug, Clone, Copy)] pub enum VarDeclKind { Var, Let, Const }
        node! { pub struct VarDeclarator { pub span: Span, pub name: Pat, pub init: Option<Box<Expr>>, pub definite: bool } }
        node! { pub struct VarDecl { pub span: Span, pub ctxt: SyntaxContext, pub kind: VarDeclKind, pub declare: bool, pub decls: Vec<VarDeclarator> } }
        impl Default for VarDecl { fn default() -> Self { VarDecl { span: DUMMY_SP, ctxt: SyntaxContext::empty(), kind: VarDeclKind::Var, declare: false, decls: Vec::new() } } }
        node! { pub struct FnDecl { pub ident: Ident, pub declare: bool, pub function: Box<Function> } }
        node! { pub enum Decl { Fn(FnDecl), Var(Box<VarDecl>), TsInterface(Box<TsInterfaceDecl>), TsTypeAlias(Box<TsTypeAliasDecl>) } }
        node! { pub enum Stmt { Block(BlockStmt), Empty(EmptyStmt), Return(ReturnStmt), Decl(Decl), Expr(ExprStmt) } }

        // ---------------- modules ----------------
        #[derive(PartialEq, Eq, Debug, Clone, Copy, Default)] pub enum ImportPhase { #[default] Evaluation, Source, Defer }
        node! { pub enum ModuleExportName { Ident(Ident), Str(Str) } }
        node! { pub struct ImportNamedSpecifier { pub span: Span, pub local: Ident, pub imported: Option<ModuleExportName>, pub is_type_only: bool } }
        node! { pub struct ImportDefaultSpecifier { pub span: Span, pub local: Ident } }
        node! { pub struct ImportStarAsSpecifier { pub span: Span, pub local: Ident } }
        node! { pub enum ImportSpecifier { Named(ImportNamedSpecifier), Default(ImportDefaultSpecifier), Namespace(ImportStarAsSpecifier) } }
        node! { pub struct ImportDecl { pub span: Span, pub specifiers: Vec<ImportSpecifier>, pub src: Box<Str>, pub type_only: bool, pub with: Option<Box<ObjectLit>>, pub phase: ImportPhase } }
        node! { pub struct ExportDecl { pub span: Span, pub decl: Decl } }
        node! { pub struct ExportDefaultExpr { pub span: Span, pub expr: Box<Expr> } }
        node! { pub enum ModuleDecl { Import(ImportDecl), ExportDecl(ExportDecl), ExportDefaultExpr(ExportDefaultExpr) } }
        node! { pub enum ModuleItem { ModuleDecl(ModuleDecl), Stmt(Stmt) } }
        node! { pub struct Module { pub span: Span, pub body: Vec<ModuleItem>, pub shebang: Option<Atom> } }

        // ---------------- JSX ----------------
        node! { pub struct JSXEmptyExpr { pub span: Span } }
        impl Copy for JSXEmptyExpr {}
        node! { pub enum JSXExpr { JSXEmptyExpr(JSXEmptyExpr), Expr(Box<Expr>) } }
        node! { pub struct JSXExprContainer { pub span: Span, pub expr: JSXExpr } }
        node! { pub struct JSXSpreadChild { pub span: Span, pub expr: Box<Expr> } }
        node! { pub struct JSXText { pub span: Span, pub value: Atom, pub raw: Atom } }
        node! { pub enum JSXObject { JSXMemberExpr(Box<JSXMemberExpr>), Ident(Ident) } }
        node! { pub struct JSXMemberExpr { pub span: Span, pub obj: JSXObject, pub prop: IdentName } }
        node! { pub struct JSXNamespacedName { pub span: Span, pub ns: IdentName, pub name: IdentName } }
        node! { pub enum JSXElementName { Ident(Ident), JSXMemberExpr(JSXMemberExpr), JSXNamespacedName(JSXNamespacedName) } }
        node! { pub enum JSXAttrName { Ident(IdentName), JSXNamespacedName(JSXNamespacedName) } }
        node! { pub enum JSXAttrValue { Lit(Lit), JSXExprContainer(JSXExprContainer), JSXElement(Box<JSXElement>), JSXFragment(JSXFragment) } }
        node! { pub struct JSXAttr { pub span: Span, pub name: JSXAttrName, pub value: Option<JSXAttrValue> } }
        node! { pub enum JSXAttrOrSpread { JSXAttr(JSXAttr), SpreadElement(SpreadElement) } }
        node! { pub struct JSXOpeningElement { pub name: JSXElementName, pub span: Span, pub attrs: Vec<JSXAttrOrSpread>, pub self_closing: bool, pub type_args: Option<Box<TsTypeParamInstantiation>> } }
        node! { pub struct JSXClosingElement { pub span: Span, pub name: JSXElementName } }
        node! { pub struct JSXOpeningFragment { pub span: Span } }
        node! { pub struct JSXClosingFragment { pub span: Span } }
        node! { pub enum JSXElementChild { JSXText(JSXText), JSXExprContainer(JSXExprContainer), JSXSpreadChild(JSXSpreadChild), JSXElement(Box<JSXElement>), JSXFragment(JSXFragment) } }
        node! { pub struct JSXElement { pub span: Span, pub opening: JSXOpeningElement, pub children: Vec<JSXElementChild>, pub closing: Option<JSXClosingElement> } }
        node! { pub struct JSXFragment { pub span: Span, pub opening: JSXOpeningFragment, pub children: Vec<JSXElementChild>, pub closing: JSXClosingFragment } }

        // ---------------- TypeScript ----------------
        node! { pub struct TsTypeAnn { pub span: Span, pub type_ann: Box<TsType> } }
        node! { pub struct TsTypeParam { pub span: Span, pub name: Ident } } // reduced: never inspected
        node! { pub struct TsTypeParamDecl { pub span: Span, pub params: Vec<TsTypeParam> } }
        node! { pub struct TsTypeParamInstantiation { pub span: Span, pub params: Vec<Box<TsType>> } }
        node! { pub enum TsFnParam { Ident(BindingIdent), Array(ArrayPat), Rest(RestPat), Object(ObjectPat) } }
        node! { pub enum TsEntityName { TsQualifiedName(Box<TsQualifiedName>), Ident(Ident) } }
        node! { pub struct TsQualifiedName { pub span: Span, pub left: TsEntityName, pub right: IdentName } }
        node! { pub struct TsPropertySignature { pub span: Span, pub readonly: bool, pub key: Box<Expr>, pub computed: bool, pub optional: bool, pub type_ann: Option<Box<TsTypeAnn>> } }
        node! { pub struct TsGetterSignature { pub span: Span, pub key: Box<Expr>, pub computed: bool, pub type_ann: Option<Box<TsTypeAnn>> } }
        node! { pub struct TsSetterSignature { pub span: Span, pub key: Box<Expr>, pub computed: bool, pub param: TsFnParam } }
        node! { pub struct TsMethodSignature { pub span: Span, pub key: Box<Expr>, pub computed: bool, pub optional: bool, pub params: Vec<TsFnParam>, pub type_ann: Option<Box<TsTypeAnn>>, pub type_params: Option<Box<TsTypeParamDecl>> } }
        node! { pub struct TsCallSignatureDecl { pub span: Span, pub params: Vec<TsFnParam>, pub type_ann: Option<Box<TsTypeAnn>>, pub type_params: Option<Box<TsTypeParamDecl>> } }
        node! { pub struct TsConstructSignatureDecl { pub span: Span, pub params: Vec<TsFnParam>, pub type_ann: Option<Box<TsTypeAnn>>, pub type_params: Option<Box<TsTypeParamDecl>> } }
        node! { pub struct TsIndexSignature { pub params: Vec<TsFnParam>, pub type_ann: Option<Box<TsTypeAnn>>, pub readonly: bool, pub is_static: bool, pub span: Span } }
        node! { pub enum TsTypeElement { TsCallSignatureDecl(TsCallSignatureDecl), TsConstructSignatureDecl(TsConstructSignatureDecl), TsPropertySignature(TsPropertySignature), TsGetterSignature(TsGetterSignature), TsSetterSignature(TsSetterSignature), TsMethodSignature(TsMethodSignature), TsIndexSignature(TsIndexSignature) } }
        node! { pub struct TsTypeLit { pub span: Span, pub members: Vec<TsTypeElement> } }
        node! { pub struct TsTypeRef { pub span: Span, pub type_name: TsEntityName, pub type_params: Option<Box<TsTypeParamInstantiation>> } }
        node! { pub struct TsExprWithTypeArgs { pub span: Span, pub expr: Box<Expr>, pub type_args: Option<Box<TsTypeParamInstantiation>> } }
        node! { pub struct TsInterfaceBody { pub span: Span, pub body: Vec<TsTypeElement> } }
        node! { pub struct TsInterfaceDecl { pub span: Span, pub id: Ident, pub declare: bool, pub type_params: Option<Box<TsTypeParamDecl>>, pub extends: Vec<TsExprWithTypeArgs>, pub body: TsInterfaceBody } }
        node! { pub struct TsTypeAliasDecl { pub span: Span, pub declare: bool, pub id: Ident, pub type_params: Option<Box<TsTypeParamDecl>>, pub type_ann: Box<TsType> } }
        #[derive(PartialEq, Eq, Debug, Clone, Copy)]
        pub enum TsKeywordTypeKind { TsAnyKeyword, TsUnknownKeyword, TsNumberKeyword, TsObjectKeyword, TsBooleanKeyword, TsBigIntKeyword, TsStringKeyword, TsSymbolKeyword, TsVoidKeyword, TsUndefinedKeyword, TsNullKeyword, TsNeverKeyword, TsIntrinsicKeyword }
        node! { pub struct TsKeywordType { pub span: Span, pub kind: TsKeywordTypeKind } }
        node! { pub struct TsThisType { pub span: Span } }
        node! { pub struct TsTplLitType { pub span: Span, pub types: Vec<Box<TsType>> } } // reduced: `quasis` omitted
        node! { pub enum TsLit { Number(Number), Str(Str), Bool(Bool), BigInt(BigInt), Tpl(TsTplLitType) } }
        node! { pub struct TsLitType { pub span: Span, pub lit: TsLit } }
        node! { pub struct TsUnionType { pub span: Span, pub types: Vec<Box<TsType>> } }
        node! { pub struct TsIntersectionType { pub span: Span, pub types: Vec<Box<TsType>> } }
        node! { pub enum TsUnionOrIntersectionType { TsUnionType(TsUnionType), TsIntersectionType(TsIntersectionType) } }
        node! { pub struct TsIndexedAccessType { pub span: Span, pub readonly: bool, pub obj_type: Box<TsType>, pub index_type: Box<TsType> } }
        node! { pub struct TsFnType { pub span: Span, pub params: Vec<TsFnParam>, pub type_params: Option<Box<TsTypeParamDecl>>, pub type_ann: Box<TsTypeAnn> } }
        node! { pub struct TsConstructorType { pub span: Span, pub params: Vec<TsFnParam>, pub type_params: Option<Box<TsTypeParamDecl>>, pub type_ann: Box<TsTypeAnn>, pub is_abstract: bool } }
        node! { pub enum TsFnOrConstructorType { TsFnType(TsFnType), TsConstructorType(TsConstructorType) } }
        node! { pub struct TsParenthesizedType { pub span: Span, pub type_ann: Box<TsType> } }
        node! { pub struct TsOptionalType { pub span: Span, pub type_ann: Box<TsType> } }
        node! { pub struct TsArrayType { pub span: Span, pub elem_type: Box<TsType> } }
        node! { pub struct TsTupleElement { pub span: Span, pub label: Option<Pat>, pub ty: Box<TsType> } }
        node! { pub struct TsTupleType { pub span: Span, pub elem_types: Vec<TsTupleElement> } }
        node! { pub enum TsType {
            TsKeywordType(TsKeywordType), TsThisType(TsThisType), TsFnOrConstructorType(TsFnOrConstructorType), TsTypeRef(TsTypeRef),
            TsTypeLit(TsTypeLit), TsArrayType(TsArrayType), TsTupleType(TsTupleType), TsOptionalType(TsOptionalType),
            TsUnionOrIntersectionType(TsUnionOrIntersectionType), TsParenthesizedType(TsParenthesizedType),
            TsIndexedAccessType(TsIndexedAccessType), TsLitType(TsLitType)
        } }

        // ---------------- Spanned ----------------
        macro_rules! spanned_field { ($($t:ident),*) => { $(impl Spanned for $t { fn span(&self) -> Span { self.span } })* } }
        spanned_field!(Ident, IdentName, Str, Bool, Null, Number, BigInt, Invalid, ThisExpr, ArrayLit, ObjectLit, BinExpr, UnaryExpr, ParenExpr,
            CondExpr, MemberExpr, AssignExpr, CallExpr, ArrowExpr, JSXEmptyExpr, JSXExprContainer, JSXMemberExpr, JSXNamespacedName,
            JSXAttr, JSXElement, JSXFragment, JSXText, JSXSpreadChild, ImportDecl, ExportDecl, ExportDefaultExpr, VarDecl, BlockStmt,
            ReturnStmt, ExprStmt, EmptyStmt, TsInterfaceDecl, TsTypeAliasDecl, TsKeywordType, TsThisType, TsTypeRef, TsTypeLit,
            TsArrayType, TsTupleType, TsOptionalType, TsUnionType, TsIntersectionType, TsParenthesizedType, TsIndexedAccessType,
            TsLitType, TsFnType, TsConstructorType, TsTypeAnn);
        impl Spanned for FnExpr { fn span(&self) -> Span { self.function.span } }
        impl Spanned for FnDecl { fn span(&self) -> Span { self.function.span } }
        impl Spanned for Lit { fn span(&self) -> Span { match self { Lit::Str(x) => x.span, Lit::Bool(x) => x.span, Lit::Null(x) => x.span, Lit::Num(x) => x.span, Lit::BigInt(x) => x.span } } }
        impl Spanned for Expr {
            fn span(&self) -> Span {
                match self {
                    Expr::This(x) => x.span, Expr::Array(x) => x.span, Expr::Object(x) => x.span, Expr::Fn(x) => x.span(), Expr::Unary(x) => x.span,
                    Expr::Bin(x) => x.span, Expr::Assign(x) => x.span, Expr::Member(x) => x.span, Expr::Cond(x) => x.span, Expr::Call(x) => x.span,
                    Expr::Ident(x) => x.span, Expr::Lit(x) => x.span(), Expr::Arrow(x) => x.span, Expr::Paren(x) => x.span, Expr::JSXMember(x) => x.span,
                    Expr::JSXNamespacedName(x) => x.span, Expr::JSXEmpty(x) => x.span, Expr::JSXElement(x) => x.span, Expr::JSXFragment(x) => x.span,
                    Expr::Invalid(x) => x.span,
                }
            }
        }
        impl Spanned for JSXAttrValue { fn span(&self) -> Span { match self { JSXAttrValue::Lit(x) => x.span(), JSXAttrValue::JSXExprContainer(x) => x.span, JSXAttrValue::JSXElement(x) => x.span, JSXAttrValue::JSXFragment(x) => x.span } } }
        impl Spanned for Decl { fn span(&self) -> Span { match self { Decl::Fn(x) => x.span(), Decl::Var(x) => x.span, Decl::TsInterface(x) => x.span, Decl::TsTypeAlias(x) => x.span } } }
        impl Spanned for Stmt { fn span(&self) -> Span { match self { Stmt::Block(x) => x.span, Stmt::Empty(x) => x.span, Stmt::Return(x) => x.span, Stmt::Decl(x) => x.span(), Stmt::Expr(x) => x.span } } }
        impl Spanned for ModuleDecl { fn span(&self) -> Span { match self { ModuleDecl::Import(x) => x.span, ModuleDecl::ExportDecl(x) => x.span, ModuleDecl::ExportDefaultExpr(x) => x.span } } }
        impl Spanned for ModuleItem { fn span(&self) -> Span { match self { ModuleItem::ModuleDecl(x) => x.span(), ModuleItem::Stmt(x) => x.span() } } }
        impl Spanned for TsUnionOrIntersectionType { fn span(&self) -> Span { match self { TsUnionOrIntersectionType::TsUnionType(x) => x.span, TsUnionOrIntersectionType::TsIntersectionType(x) => x.span } } }
        impl Spanned for TsFnOrConstructorType { fn span(&self) -> Span { match self { TsFnOrConstructorType::TsFnType(x) => x.span, TsFnOrConstructorType::TsConstructorType(x) => x.span } } }
        impl Spanned for TsType {
            fn span(&self) -> Span {
                match self {
                    TsType::TsKeywordType(x) => x.span, TsType::TsThisType(x) => x.span, TsType::TsFnOrConstructorType(x) => x.span(), TsType::TsTypeRef(x) => x.span,
                    TsType::TsTypeLit(x) => x.span, TsType::TsArrayType(x) => x.span, TsType::TsTupleType(x) => x.span, TsType::TsOptionalType(x) => x.span,
                    TsType::TsUnionOrIntersectionType(x) => x.span(), TsType::TsParenthesizedType(x) => x.span, TsType::TsIndexedAccessType(x) => x.span,
                    TsType::TsLitType(x) => x.span,
                }
            }
        }
    }
}

#[macro_export] macro_rules! atom { ($s:tt) => { $crate::ecma::atoms::Atom::from($s) }; }
#[macro_export] macro_rules! quote_str {
    ($s:expr) => { $crate::quote_str!($crate::common::DUMMY_SP, $s) };
    ($span:expr, $s:expr) => { $crate::ecma::ast::Str { span: $span, raw: None, value: $s.into() } };
}
#[macro_export] macro_rules! quote_ident {
    ($s:expr) => { $crate::ecma::ast::IdentName::new($s.into(), $crate::common::DUMMY_SP) };
}
#[macro_export] macro_rules! private_ident {
    ($s:expr) => { $crate::ecma::ast::Ident::new_private($s.into(), $crate::common::DUMMY_SP) };
}
#[macro_export] macro_rules! op {
    ("||") => { $crate::ecma::ast::BinaryOp::LogicalOr }; ("&&") => { $crate::ecma::ast::BinaryOp::LogicalAnd };
    ("===") => { $crate::ecma::ast::BinaryOp::EqEqEq }; (bin, "+") => { $crate::ecma::ast::BinaryOp::Add };
    ("typeof") => { $crate::ecma::ast::UnaryOp::TypeOf }; ("!") => { $crate::ecma::ast::UnaryOp::Bang }; ("void") => { $crate::ecma::ast::UnaryOp::Void };
    ("=") => { $crate::ecma::ast::AssignOp::Assign };
}
