//! Models of std functions that the harnesses substitute with `#[kani::stub]`.  Lives in its own crate because naming the
//! allocator parameter of `Vec<T, A>` needs a nightly feature gate, which cannot be added to the verbatim copy of the crate.
#![feature(allocator_api)]
use std::alloc::Allocator;

/// `Vec::extend_from_slice` for `Clone` elements.  std implements it with `extend_trusted`, which publishes the new length
/// in the destructor of a `SetLenOnDrop` guard captured by a closure; the harnesses remove all drop glue (A-DROP), so with
/// the real body the length would never be updated.  Contract: appends a clone of every element of `other`, in order.
pub fn extend_from_slice_model<T: Clone, A: Allocator>(v: &mut Vec<T, A>, other: &[T]) {
    let mut i = 0;
    while i < other.len() {
        v.push(other[i].clone());
        i += 1;
    }
}
