//! Stand-in for `css_dataset` 0.3 (API surface used by swc-vue-jsx-visitor: `tags::STANDARD_HTML_TAGS.contains`,
//! `tags::SVG_TAGS.contains`).  The real tables are perfect-hash sets (`phf::Set`, SipHash) — a CBMC tarpit.
//! ASSUMED CONTRACT of the dependency: `contains(name)` is a pure membership test in a fixed table of tag names.
//! Model: linear membership in a sub-table of the real lists (every name below is in the real list; checked by
//! tools/conformance).  Harness inputs draw HTML/SVG names from this sub-table only.
pub mod tags {
    pub struct Set(pub &'static [&'static str]);
    impl Set {
        pub fn contains(&self, name: &str) -> bool {
            let mut i = 0;
            while i < self.0.len() {
                if self.0[i] == name { return true; }
                i += 1;
            }
            false
        }
    }
    pub static STANDARD_HTML_TAGS: Set = Set(&["a", "div", "input", "p", "select", "span", "textarea"]);
    pub static SVG_TAGS: Set = Set(&["circle", "clipPath", "g", "path", "svg"]);
}
