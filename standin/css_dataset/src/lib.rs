//! Stand-in for `css_dataset` 0.3 (API surface used by swc-vue-jsx-visitor: `tags::STANDARD_HTML_TAGS.contains`,
//! `tags::SVG_TAGS.contains`).  The real tables are perfect-hash sets (`phf::Set`, SipHash) — a CBMC tarpit.
//! ASSUMED CONTRACT of the dependency: `contains(name)` is a pure membership test in a fixed table of tag names.
//! Model: linear membership in a sub-table of the real lists (every name below is in the real list; checked by
//! tools/conformance).  Harness inputs draw HTML/SVG names from this sub-table only.
pub mod tags {
    pub struct Set(pub &'static [&'static str]);
    impl Set {
        pub fn contains(&self, name: &str) -> bool {
            // unrolled (tables have <= 8 entries): no loop for CBMC to unwind
            let t = self.0;
            (t.len() > 0 && t[0] == name) || (t.len() > 1 && t[1] == name) || (t.len() > 2 && t[2] == name) || (t.len() > 3 && t[3] == name)
                || (t.len() > 4 && t[4] == name) || (t.len() > 5 && t[5] == name) || (t.len() > 6 && t[6] == name) || (t.len() > 7 && t[7] == name)
        }
    }
    pub static STANDARD_HTML_TAGS: Set = Set(&["a", "div", "input", "p", "select", "span", "textarea"]);
    pub static SVG_TAGS: Set = Set(&["circle", "clipPath", "g", "path", "svg"]);
}
