// L-flags (C13): for EVERY sequence of abstract attributes, folding the per-attribute step from the initial
// state and applying the finalisation contract yields sound update hints.  Unbounded induction in Verus.
// The step / finalisation spec functions below are the contracts that the Kani units U-step-* / U-flagfinal prove
// of the real code (extracted arm bodies of transform_attrs); the same text is compiled to Rust for those harnesses
// (tools/gen_spec.py), so the lemma's hypotheses are exactly what is discharged against the real code.
use vstd::prelude::*;
verus! {

// ---- name classes of a plain attribute ----
pub spec const N_REF: int = 0;       // `ref`
pub spec const N_CLASS: int = 1;
pub spec const N_STYLE: int = 2;
pub spec const N_KEY: int = 3;
pub spec const N_ON: int = 4;        // the literal name `on`
pub spec const N_NATIVE_ON: int = 5; // the literal name `nativeOn`
pub spec const N_CLICK: int = 6;     // onClick / onclick (any case)
pub spec const N_UPDATE_MV: int = 7; // onUpdate:modelValue
pub spec const N_LISTENER: int = 8;  // any other onXxx
pub spec const N_OTHER: int = 9;     // anything else

// ---- attribute kinds ----
pub spec const K_PLAIN: int = 0;
pub spec const K_SPREAD: int = 1;
pub spec const K_DIR_NORMAL: int = 2;   // runtime directive binding
pub spec const K_DIR_PROP: int = 3;     // v-html / v-text: one dynamic prop `name`
pub spec const K_VMODEL_STATIC: int = 4; // v-model with static key(s): listener prop `name`, value prop `name2` on components
pub spec const K_VMODEL_COMPUTED: int = 5;
pub spec const K_SLOTS: int = 6;

pub struct Attr {
    pub kind: int,
    pub ncls: int,        // name class (K_PLAIN)
    pub name: int,        // identity of the prop name
    pub name2: int,       // second prop name (K_VMODEL_STATIC value prop)
    pub is_const: bool,   // contract of is_jsx_attr_value_constant: true => value cannot differ between renders
}

pub struct St {
    pub has_ref: bool,
    pub cls: bool,
    pub sty: bool,
    pub hyd: bool,
    pub dynkeys: bool,
    pub dp: Set<int>,        // dynamic_props
    pub present: Set<int>,   // keys of props pushed (named props actually present)
    pub n_dirs: nat,         // runtime directive bindings pushed
}

pub open spec fn init() -> St {
    St { has_ref: false, cls: false, sty: false, hyd: false, dynkeys: false, dp: Set::empty(), present: Set::empty(), n_dirs: 0 }
}

pub open spec fn is_listener(n: int) -> bool { n == N_CLICK || n == N_UPDATE_MV || n == N_LISTENER }

/// contract of the plain-attribute arm (lib.rs `JSXAttrOrSpread::JSXAttr(jsx_attr) => {..}`), as proved by U-step-plain
pub open spec fn step_plain(s: St, a: Attr, comp: bool, transform_on: bool) -> St {
    let dynamic = !a.is_const;
    let s1 = if a.ncls == N_REF { St { has_ref: true, ..s } }
        else if dynamic {
            let hyd = s.hyd || (!comp && is_listener(a.ncls) && a.ncls != N_CLICK && a.ncls != N_UPDATE_MV);
            if a.ncls == N_CLASS && !comp { St { hyd: hyd, cls: true, ..s } }
            else if a.ncls == N_STYLE && !comp { St { hyd: hyd, sty: true, ..s } }
            else if a.ncls == N_KEY || a.ncls == N_ON { St { hyd: hyd, ..s } }
            else { St { hyd: hyd, dp: s.dp.insert(a.name), ..s } }
        } else { s };
    if transform_on && (a.ncls == N_ON || a.ncls == N_NATIVE_ON) { s1 /* routed to merge_args */ }
    else { St { present: s1.present.insert(a.name), ..s1 } }
}

pub open spec fn step(s: St, a: Attr, comp: bool, transform_on: bool) -> St {
    if a.kind == K_PLAIN { step_plain(s, a, comp, transform_on) }
    else if a.kind == K_SPREAD { St { dynkeys: true, ..s } }
    else if a.kind == K_DIR_NORMAL { St { n_dirs: s.n_dirs + 1, ..s } }
    else if a.kind == K_DIR_PROP { St { dp: s.dp.insert(a.name), present: s.present.insert(a.name), ..s } }
    else if a.kind == K_VMODEL_STATIC {
        if comp { St { dp: s.dp.insert(a.name).insert(a.name2), present: s.present.insert(a.name).insert(a.name2), ..s } }
        else { St { dp: s.dp.insert(a.name), present: s.present.insert(a.name), n_dirs: s.n_dirs + 1, ..s } }
    }
    else if a.kind == K_VMODEL_COMPUTED { St { dynkeys: true, n_dirs: if comp { s.n_dirs } else { s.n_dirs + 1 }, ..s } }
    else { s }
}

pub open spec fn fold(attrs: Seq<Attr>, comp: bool, ton: bool) -> St
    decreases attrs.len()
{
    if attrs.len() == 0 { init() } else { step(fold(attrs.drop_last(), comp, ton), attrs.last(), comp, ton) }
}

// ---- flag word: contract of the finalisation block (U-flagfinal) ----
pub struct Flags { pub cls: bool, pub sty: bool, pub props: bool, pub full: bool, pub hyd: bool, pub need_patch: bool }
pub open spec fn is_zero(f: Flags) -> bool { !f.cls && !f.sty && !f.props && !f.full && !f.hyd && !f.need_patch }
pub open spec fn only_hyd(f: Flags) -> bool { !f.cls && !f.sty && !f.props && !f.full && f.hyd && !f.need_patch }

pub open spec fn finalize(s: St) -> Flags {
    let f0 = if s.dynkeys { Flags { cls: false, sty: false, props: false, full: true, hyd: false, need_patch: false } }
             else { Flags { cls: s.cls, sty: s.sty, props: s.dp.len() > 0, full: false, hyd: s.hyd, need_patch: false } };
    if (is_zero(f0) || only_hyd(f0)) && (s.has_ref || s.n_dirs > 0) { Flags { need_patch: true, ..f0 } } else { f0 }
}

// ---- what the property statement demands ----
pub open spec fn really_dynamic(a: Attr) -> bool { a.kind == K_PLAIN && !a.is_const }
/// a plain attribute that ends up as a named prop (not routed through transformOn)
pub open spec fn named_prop(a: Attr, ton: bool) -> bool { a.kind == K_PLAIN && !(ton && (a.ncls == N_ON || a.ncls == N_NATIVE_ON)) }

pub open spec fn covered(a: Attr, comp: bool, s: St, f: Flags) -> bool {
    if a.ncls == N_CLASS && !comp { f.cls }
    else if a.ncls == N_STYLE && !comp { f.sty }
    else { f.props && s.dp.contains(a.name) }
}

pub open spec fn finite_st(s: St) -> bool { true }

/// invariant carried through the fold
pub open spec fn inv(attrs: Seq<Attr>, comp: bool, ton: bool, s: St) -> bool {
    &&& finite_st(s)
    // every really-dynamic named prop (other than key / ref / the bare `on`) is tracked
    &&& forall|i: int| 0 <= i < attrs.len() && really_dynamic(#[trigger] attrs[i]) && named_prop(attrs[i], ton)
            && attrs[i].ncls != N_KEY && attrs[i].ncls != N_REF && attrs[i].ncls != N_ON ==>
            (if attrs[i].ncls == N_CLASS && !comp { s.cls } else if attrs[i].ncls == N_STYLE && !comp { s.sty } else { s.dp.contains(attrs[i].name) })
    // spreads and computed keys force dynkeys
    &&& forall|i: int| 0 <= i < attrs.len() && ((#[trigger] attrs[i]).kind == K_SPREAD || attrs[i].kind == K_VMODEL_COMPUTED) ==> s.dynkeys
    // the list names only props actually present -- EXCEPT the nativeOn/transformOn defect, excluded by hypothesis below
    &&& (forall|i: int| 0 <= i < attrs.len() ==> !(ton && (#[trigger] attrs[i]).kind == K_PLAIN && attrs[i].ncls == N_NATIVE_ON && !attrs[i].is_const)) ==> s.dp.subset_of(s.present)
    // ref / directives are remembered
    &&& (exists|i: int| 0 <= i < attrs.len() && (#[trigger] attrs[i]).kind == K_PLAIN && attrs[i].ncls == N_REF) ==> s.has_ref
    &&& (exists|i: int| 0 <= i < attrs.len() && (#[trigger] attrs[i]).kind == K_DIR_NORMAL) ==> s.n_dirs > 0
}

pub proof fn lemma_fold_inv(attrs: Seq<Attr>, comp: bool, ton: bool)
    ensures inv(attrs, comp, ton, fold(attrs, comp, ton)),
    decreases attrs.len(),
{
    if attrs.len() == 0 {
        assert(init().dp.subset_of(init().present));
    } else {
        let pre = attrs.drop_last();
        let a = attrs.last();
        lemma_fold_inv(pre, comp, ton);
        let s0 = fold(pre, comp, ton);
        let s1 = step(s0, a, comp, ton);
        assert(fold(attrs, comp, ton) == s1);
        assert(forall|i: int| 0 <= i < pre.len() ==> pre[i] == attrs[i]);
        // monotonicity of the tracked facts
        assert(s0.cls ==> s1.cls);
        assert(s0.sty ==> s1.sty);
        assert(s0.dynkeys ==> s1.dynkeys);
        assert(s0.has_ref ==> s1.has_ref);
        assert(s0.n_dirs > 0 ==> s1.n_dirs > 0);
        assert(forall|n: int| s0.dp.contains(n) ==> s1.dp.contains(n));
        assert(forall|n: int| s0.present.contains(n) ==> s1.present.contains(n));
        assert(finite_st(s1));
        assert forall|i: int| 0 <= i < attrs.len() && really_dynamic(#[trigger] attrs[i]) && named_prop(attrs[i], ton)
            && attrs[i].ncls != N_KEY && attrs[i].ncls != N_REF && attrs[i].ncls != N_ON implies
            (if attrs[i].ncls == N_CLASS && !comp { s1.cls } else if attrs[i].ncls == N_STYLE && !comp { s1.sty } else { s1.dp.contains(attrs[i].name) }) by {
            if i < pre.len() { assert(pre[i] == attrs[i]); } else { assert(attrs[i] == a); }
        }
        assert forall|i: int| 0 <= i < attrs.len() && ((#[trigger] attrs[i]).kind == K_SPREAD || attrs[i].kind == K_VMODEL_COMPUTED) implies s1.dynkeys by {
            if i < pre.len() { assert(pre[i] == attrs[i]); } else { assert(attrs[i] == a); }
        }
        if forall|i: int| 0 <= i < attrs.len() ==> !(ton && (#[trigger] attrs[i]).kind == K_PLAIN && attrs[i].ncls == N_NATIVE_ON && !attrs[i].is_const) {
            assert forall|i: int| 0 <= i < pre.len() implies !(ton && (#[trigger] pre[i]).kind == K_PLAIN && pre[i].ncls == N_NATIVE_ON && !pre[i].is_const) by { assert(pre[i] == attrs[i]); }
            assert(s0.dp.subset_of(s0.present));
            assert(attrs[attrs.len() - 1] == a);
            assert(!(ton && a.kind == K_PLAIN && a.ncls == N_NATIVE_ON && !a.is_const));
            assert(s1.dp.subset_of(s1.present));
        }
        if exists|i: int| 0 <= i < attrs.len() && (#[trigger] attrs[i]).kind == K_PLAIN && attrs[i].ncls == N_REF {
            let i = choose|i: int| 0 <= i < attrs.len() && (#[trigger] attrs[i]).kind == K_PLAIN && attrs[i].ncls == N_REF;
            if i < pre.len() { assert(pre[i] == attrs[i]); assert(s0.has_ref); } else { assert(attrs[i] == a); }
        }
        if exists|i: int| 0 <= i < attrs.len() && (#[trigger] attrs[i]).kind == K_DIR_NORMAL {
            let i = choose|i: int| 0 <= i < attrs.len() && (#[trigger] attrs[i]).kind == K_DIR_NORMAL;
            if i < pre.len() { assert(pre[i] == attrs[i]); assert(s0.n_dirs > 0); } else { assert(attrs[i] == a); }
        }
    }
}

/// C13, clauses over plain attributes / spreads / computed keys / ref / directives, for attribute lists of ANY length.
pub proof fn theorem_sound_hints(attrs: Seq<Attr>, comp: bool, ton: bool)
    ensures ({
        let s = fold(attrs, comp, ton);
        let f = finalize(s);
        // (a) a positive flag without FULL_PROPS covers every prop whose value can differ between renders
        &&& (!is_zero(f) && !f.full ==> forall|i: int| 0 <= i < attrs.len() && really_dynamic(#[trigger] attrs[i]) && named_prop(attrs[i], ton)
                && attrs[i].ncls != N_KEY && attrs[i].ncls != N_REF && attrs[i].ncls != N_ON ==> covered(attrs[i], comp, s, f))
        // (b) spread / computed keys: FULL_PROPS (the flag word is never zero then) and none of CLASS/STYLE/PROPS
        &&& ((exists|i: int| 0 <= i < attrs.len() && ((#[trigger] attrs[i]).kind == K_SPREAD || attrs[i].kind == K_VMODEL_COMPUTED)) ==> f.full && !f.cls && !f.sty && !f.props)
        // (c) the dynamic-prop list names only props actually present (outside the recorded nativeOn/transformOn finding)
        &&& ((forall|i: int| 0 <= i < attrs.len() ==> !(ton && (#[trigger] attrs[i]).kind == K_PLAIN && attrs[i].ncls == N_NATIVE_ON && !attrs[i].is_const)) ==> s.dp.subset_of(s.present))
        // (d) ref or runtime directive: never the hydration bit alone, never no flag
        &&& ((exists|i: int| 0 <= i < attrs.len() && ((#[trigger] attrs[i]).kind == K_PLAIN && attrs[i].ncls == N_REF || attrs[i].kind == K_DIR_NORMAL)) ==> !only_hyd(f) && !is_zero(f))
        // (e) PROPS bit goes with a non-empty list
        &&& (f.props ==> s.dp.len() > 0)
    }),
{
    lemma_fold_inv(attrs, comp, ton);
    let s = fold(attrs, comp, ton);
    let f = finalize(s);
    if !is_zero(f) && !f.full {
        assert forall|i: int| 0 <= i < attrs.len() && really_dynamic(#[trigger] attrs[i]) && named_prop(attrs[i], ton)
                && attrs[i].ncls != N_KEY && attrs[i].ncls != N_REF && attrs[i].ncls != N_ON implies covered(attrs[i], comp, s, f) by {
            if !(attrs[i].ncls == N_CLASS && !comp) && !(attrs[i].ncls == N_STYLE && !comp) {
                assert(s.dp.contains(attrs[i].name));
                lemma_nonempty_len(s.dp, attrs[i].name);
            }
        }
    }
    if exists|i: int| 0 <= i < attrs.len() && ((#[trigger] attrs[i]).kind == K_PLAIN && attrs[i].ncls == N_REF || attrs[i].kind == K_DIR_NORMAL) {
        let i = choose|i: int| 0 <= i < attrs.len() && ((#[trigger] attrs[i]).kind == K_PLAIN && attrs[i].ncls == N_REF || attrs[i].kind == K_DIR_NORMAL);
        assert(s.has_ref || s.n_dirs > 0);
    }
}

proof fn lemma_nonempty_len(s: Set<int>, x: int)
    requires s.contains(x),
    ensures s.len() > 0,
{
    vstd::set::lemma_set_contains_len(s, x);
}

} // verus!
fn main() {}
