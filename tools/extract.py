#!/usr/bin/env python3
"""Mechanical extraction of statement regions of `transform_attrs` (visitor/src/lib.rs) into free-standing methods.

Run on every check.  Regions are located by ANCHORS (enclosing fn + first-line pattern), never by line number, and
are copied BYTE FOR BYTE.  What is dropped, exactly: the code of the enclosing function before and after the region
(replaced by a parameter list / a state struct that carries the enclosing function's local variables in and out).
If an anchor is not found, or the locals the wrapper threads are not declared as expected, the tool exits 2
("anchor lost"), which /verif/check reports as undecided, never as a violation.

Output: Rust source for `verif_harness/extracted.rs` on stdout (or --out FILE) and a JSON summary (--json FILE).
"""
import argparse, hashlib, json, re, sys


def lex_match_brace(src, open_idx):
    """src[open_idx] == '{'.  Return index of the matching '}' skipping strings, chars, comments."""
    assert src[open_idx] == "{"
    depth, i, n = 0, open_idx, len(src)
    while i < n:
        c = src[i]
        if c == "/" and src.startswith("//", i):
            i = src.index("\n", i)
            continue
        if c == "/" and src.startswith("/*", i):
            i = src.index("*/", i) + 2
            continue
        if c == '"':
            i += 1
            while src[i] != '"':
                i += 2 if src[i] == "\\" else 1
            i += 1
            continue
        if c == "'":
            # char literal or lifetime
            m = re.match(r"'(\\.|[^\\'])'", src[i:])
            if m:
                i += m.end()
                continue
            i += 1
            continue
        if c == "{":
            depth += 1
        elif c == "}":
            depth -= 1
            if depth == 0:
                return i
        i += 1
    raise ValueError("unbalanced braces")


class Lost(Exception):
    pass


def find_fn(src, name):
    m = re.search(r"\n    fn %s\b[^{;]*\{" % re.escape(name), src)
    if not m:
        raise Lost("fn %s not found" % name)
    o = m.end() - 1
    return o, lex_match_brace(src, o)


def region_after(src, lo, hi, pattern, what):
    """first match of `pattern` (regex ending in '{') inside src[lo:hi]; returns (body_start, body_end) of the braces"""
    m = re.compile(pattern).search(src, lo, hi)
    if not m:
        raise Lost("anchor lost: %s" % what)
    o = m.end() - 1
    c = lex_match_brace(src, o)
    if c > hi:
        raise Lost("anchor lost: %s (region leaves the function)" % what)
    return o + 1, c


def extract(src):
    regs = {}
    f_lo, f_hi = find_fn(src, "transform_attrs")
    body = (f_lo, f_hi)
    # the fold and its closure
    m = re.compile(r"attrs\.iter\(\)\.fold\(").search(src, f_lo, f_hi)
    if not m:
        raise Lost("anchor lost: attrs.iter().fold(")
    fold_at = m.start()
    m2 = re.compile(r"\|\(mut props, mut merge_args\), jsx_attr_or_spread\| \{").search(src, fold_at, f_hi)
    if not m2:
        raise Lost("anchor lost: fold closure header")
    clo_lo = m2.end() - 1
    clo_hi = lex_match_brace(src, clo_lo)
    # the closure must be: match jsx_attr_or_spread { arms } (props, merge_args)
    clo_body = src[clo_lo + 1:clo_hi]
    if not re.match(r"\s*match jsx_attr_or_spread \{", clo_body) or not re.search(r"\}\s*\(props, merge_args\)\s*$", clo_body):
        raise Lost("anchor lost: closure is no longer `match jsx_attr_or_spread {..} (props, merge_args)`")
    arms = [
        ("directive_arm", r"JSXAttrOrSpread::JSXAttr\(jsx_attr\) if is_directive\(jsx_attr\) => \{"),
        ("plain_arm", r"JSXAttrOrSpread::JSXAttr\(jsx_attr\) => \{"),
        ("spread_arm", r"JSXAttrOrSpread::SpreadElement\(spread\) => \{"),
    ]
    pos = clo_lo
    ends = []
    for name, pat in arms:
        lo, hi = region_after(src, pos, clo_hi, pat, name)
        regs[name] = (lo, hi)
        pos = hi
        ends.append(hi)
    # nothing but the three arms inside the match
    between = src[regs["directive_arm"][1] + 1:src.rfind("JSXAttrOrSpread::JSXAttr(jsx_attr) =>", 0, regs["plain_arm"][0])]
    if between.strip():
        raise Lost("anchor lost: unexpected code between match arms")
    # locals declared before the fold, all with their initial values
    pre = src[f_lo:fold_at]
    inits = ["let mut slots = None;", "let mut dynamic_props = IndexSet::new();", "let mut has_ref = false;", "let mut has_class_binding = false;",
             "let mut has_style_binding = false;", "let mut has_hydration_event_binding = false;", "let mut has_dynamic_keys = false;"]
    for l in inits:
        if l not in pre:
            raise Lost("glue lost: `%s` is no longer declared before the fold" % l)
    # the accumulator starts empty
    if not re.search(r"fold\(\s*\(\s*Vec::with_capacity\(attrs\.len\(\)\),\s*Vec::with_capacity\(attrs\.len\(\)\),\s*\),", src[fold_at:clo_lo]):
        raise Lost("glue lost: fold accumulator no longer starts as two empty vectors")
    # assemble: `let expr = if !merge_args.is_empty() { ... };`
    m3 = re.compile(r"\n        let expr = if !merge_args\.is_empty\(\) \{").search(src, clo_hi, f_hi)
    if not m3:
        raise Lost("anchor lost: `let expr = if !merge_args.is_empty() {`")
    m4 = re.compile(r"\n        let mut patch_flags = PatchFlags::empty\(\);").search(src, m3.end(), f_hi)
    if not m4:
        raise Lost("anchor lost: `let mut patch_flags = PatchFlags::empty();`")
    regs["assemble"] = (m3.start() + 1, m4.start() + 1)
    m5 = re.compile(r"\n        AttrsTransformationResult \{\n            attrs: expr,\n            patch_flags,\n            dynamic_props: Some\(dynamic_props\),\n            slots,\n        \}").search(src, m4.end(), f_hi)
    if not m5:
        raise Lost("anchor lost: final `AttrsTransformationResult { attrs: expr, patch_flags, dynamic_props: Some(dynamic_props), slots }`")
    regs["finalize"] = (m4.start() + 1, m5.start() + 1)
    if src[m5.end():f_hi].strip():
        raise Lost("glue lost: code after the final AttrsTransformationResult")
    # between fold end and assemble: only the closing of the fold statement
    glue = src[clo_hi + 1:m3.start()]
    if not re.match(r",?\s*\);\s*$", glue):
        raise Lost("glue lost: unexpected code between the fold and the props assembly")
    # ---- transform_jsx_element: hint emission and withDirectives wrapping ----
    e_lo, e_hi = find_fn(src, "transform_jsx_element")
    m6 = re.compile(r"\n        if self\.options\.optimize \{\n            if !patch_flags\.is_empty\(\) \{").search(src, e_lo, e_hi)
    if not m6:
        raise Lost("anchor lost: hint emission block `if self.options.optimize { if !patch_flags.is_empty() {` in transform_jsx_element")
    o = src.index("{", m6.start())
    c = lex_match_brace(src, o)
    regs["emit_hints"] = (m6.start() + 1, c + 1)
    m7 = re.compile(r"\n        if directives\.is_empty\(\) \{\n            create_vnode_call\n        \} else \{").search(src, c, e_hi)
    if not m7:
        raise Lost("anchor lost: `if directives.is_empty() { create_vnode_call } else {` in transform_jsx_element")
    else_open = m7.end() - 1
    else_close = lex_match_brace(src, else_open)
    regs["wrap_directives"] = (m7.start() + 1, else_close + 1)
    if src[else_close + 1:e_hi].strip():
        raise Lost("glue lost: code after the withDirectives wrapping in transform_jsx_element")
    return regs


HEADER = '''// GENERATED on every run by /verif/tools/extract.py from {path} (sha256 {sha}).  DO NOT EDIT.
// Each method body below is a region of `VueJsxTransformVisitor::transform_attrs`, copied byte for byte between the
// BEGIN/END markers; the lines outside the markers only move the enclosing function's locals in and out.
#![allow(unused_mut, unused_variables, unused_assignments, dead_code, clippy::all)]
use crate::*;

/// the local variables of `transform_attrs` that the fold closure captures, plus the fold accumulator
pub(crate) struct AttrState<'a> {{
    pub slots: Option<Box<Expr>>,
    pub dynamic_props: IndexSet<Cow<'a, str>>,
    pub has_ref: bool,
    pub has_class_binding: bool,
    pub has_style_binding: bool,
    pub has_hydration_event_binding: bool,
    pub has_dynamic_keys: bool,
    pub props: Vec<PropOrSpread>,
    pub merge_args: Vec<Expr>,
}}
impl<'a> AttrState<'a> {{
    /// the state before the first attribute, as declared at the top of `transform_attrs`
    pub(crate) fn initial() -> Self {{
        AttrState {{ slots: None, dynamic_props: IndexSet::new(), has_ref: false, has_class_binding: false, has_style_binding: false,
            has_hydration_event_binding: false, has_dynamic_keys: false, props: Vec::new(), merge_args: Vec::new() }}
    }}
}}
'''

PROLOGUE = '''        let mut slots = st.slots.take();
        let mut dynamic_props = mem::take(&mut st.dynamic_props);
        let mut has_ref = st.has_ref;
        let mut has_class_binding = st.has_class_binding;
        let mut has_style_binding = st.has_style_binding;
        let mut has_hydration_event_binding = st.has_hydration_event_binding;
        let mut has_dynamic_keys = st.has_dynamic_keys;
        let mut props = mem::take(&mut st.props);
        let mut merge_args = mem::take(&mut st.merge_args);
'''
EPILOGUE = '''        st.slots = slots;
        st.dynamic_props = dynamic_props;
        st.has_ref = has_ref;
        st.has_class_binding = has_class_binding;
        st.has_style_binding = has_style_binding;
        st.has_hydration_event_binding = has_hydration_event_binding;
        st.has_dynamic_keys = has_dynamic_keys;
        st.props = props;
        st.merge_args = merge_args;
'''


def generate(src, path):
    regs = extract(src)
    sha = hashlib.sha256(src.encode()).hexdigest()[:16]
    out = [HEADER.format(path=path, sha=sha)]
    out.append("impl<C> VueJsxTransformVisitor<C>\nwhere\n    C: Comments,\n{\n")

    def arm(fn_name, params, region):
        lo, hi = regs[region]
        out.append("    pub(crate) fn %s<'a>(&mut self, st: &mut AttrState<'a>, %s) {\n" % (fn_name, params))
        out.append(PROLOGUE)
        out.append("        {\n// ---- BEGIN verbatim region `%s` ----" % region)
        out.append(src[lo:hi])
        out.append("// ---- END verbatim region `%s` ----\n        }\n" % region)
        out.append(EPILOGUE)
        out.append("    }\n\n")

    arm("x_directive_arm", "jsx_attr: &'a JSXAttr, is_component: bool, directives: &mut Vec<NormalDirective>", "directive_arm")
    arm("x_plain_arm", "jsx_attr: &'a JSXAttr, is_component: bool", "plain_arm")
    arm("x_spread_arm", "spread: &'a SpreadElement", "spread_arm")
    lo, hi = regs["assemble"]
    out.append("    pub(crate) fn x_assemble(&mut self, mut props: Vec<PropOrSpread>, mut merge_args: Vec<Expr>) -> Expr {\n")
    out.append("// ---- BEGIN verbatim region `assemble` ----\n" + src[lo:hi] + "// ---- END verbatim region `assemble` ----\n        expr\n    }\n\n")
    lo, hi = regs["finalize"]
    out.append("    pub(crate) fn x_finalize(has_dynamic_keys: bool, has_class_binding: bool, has_style_binding: bool, has_hydration_event_binding: bool, has_ref: bool,\n"
               "        dynamic_props: &IndexSet<Cow<'_, str>>, directives: &Vec<NormalDirective>) -> PatchFlags {\n")
    out.append("// ---- BEGIN verbatim region `finalize` ----\n" + src[lo:hi] + "// ---- END verbatim region `finalize` ----\n        patch_flags\n    }\n\n")
    lo, hi = regs["emit_hints"]
    out.append("    /// region of `transform_jsx_element`: appends the patch-flag / dynamic-prop arguments to the vnode call\n"
               "    pub(crate) fn x_emit_hints(&mut self, vnode_call_args: &mut Vec<ExprOrSpread>, patch_flags: PatchFlags, dynamic_props: Option<IndexSet<Cow<'_, str>>>) {\n")
    out.append("// ---- BEGIN verbatim region `emit_hints` ----\n" + src[lo:hi] + "\n// ---- END verbatim region `emit_hints` ----\n    }\n\n")
    lo, hi = regs["wrap_directives"]
    out.append("    /// region of `transform_jsx_element`: the tail expression that wraps the vnode call in withDirectives\n"
               "    pub(crate) fn x_wrap_directives(&mut self, create_vnode_call: Expr, directives: Vec<NormalDirective>, jsx_element: &JSXElement) -> Expr {\n")
    out.append("// ---- BEGIN verbatim region `wrap_directives` ----\n" + src[lo:hi] + "\n// ---- END verbatim region `wrap_directives` ----\n    }\n}\n")
    summary = dict(source=path, sha256_16=sha,
                   regions={k: dict(first_line=src.count("\n", 0, v[0]) + 1, last_line=src.count("\n", 0, v[1]) + 1, bytes=v[1] - v[0],
                                    sha256_16=hashlib.sha256(src[v[0]:v[1]].encode()).hexdigest()[:16]) for k, v in regs.items()},
                   dropped_jsx_element="transform_jsx_element outside its two regions: slot-flag push, the calls of is_component / transform_attrs / transform_tag / transform_children that build the first three arguments, and the construction of the vnode call expression",
                   dropped="code of transform_attrs outside the regions: the early return for an empty attribute list, the fold call and its accumulator, "
                           "the closure header, the match header; replaced by AttrState (locals moved in and out) and parameters")
    return "".join(out), summary


def main():
    ap = argparse.ArgumentParser()
    ap.add_argument("--src", default="/repo/visitor/src/lib.rs")
    ap.add_argument("--out")
    ap.add_argument("--json")
    a = ap.parse_args()
    src = open(a.src).read()
    try:
        text, summary = generate(src, a.src)
    except (Lost, ValueError) as e:
        sys.stderr.write("extract: %s\n" % e)
        return 2
    if a.out:
        open(a.out, "w").write(text)
    else:
        sys.stdout.write(text)
    if a.json:
        json.dump(summary, open(a.json, "w"), indent=1)
    return 0


if __name__ == "__main__":
    sys.exit(main())
