#!/usr/bin/env python3
"""Writes /verif/MANIFEST.json from the registry (claimed properties) and the not-applicable table."""
import json, os, sys
VERIF = os.path.dirname(os.path.dirname(os.path.abspath(__file__)))
sys.path.insert(0, os.path.join(VERIF, "lib"))
import registry

CLAIMS = {
 "C01": ("Contracts on the real transform_tag / is_component and on the verbatim-extracted plain-attribute, spread and props-assembly regions of transform_attrs: vnode type per tag form; one written attribute = one prop with the written key and value; spread placement per mergeProps. Complete over the stated abstract tag/attribute domain, bounded in list length (<= 2); no JavaScript semantics (the emitted object's evaluation is not modelled).",
         "Stand-in swc_core/css_dataset/regex/indexmap/fnv (assumed dependency contracts); drop glue stubbed; bitwise Clone; transform_text, parse_directive, is_jsx_attr_value_constant, format! replaced by models in caller harnesses (each model's own contract is a separate unit); fold glue checked syntactically by the extractor."),
 "C02": ("Contracts on is_component (Fragment / KeepAlive / string tags are not slot hosts) and transform_jsx_text (text dropped iff it cleans to empty; otherwise createTextVNode(cleaned)). The text-cleaning function itself is out of Kani's reach (std string machinery) and is NOT claimed.",
         "Same stand-in / stub assumptions; transform_text replaced by an oracle."),
 "C04": ("Contracts on the real is_directive (complete over names of length <= 3; also as a native Kani function contract), the private helpers lowercase_first_letter / is_identifier_name (complete over ASCII strings <= 3 bytes), parse_directive on 10 modifier-free spellings and 6 value forms (bounded), v-html/v-text over every attribute-value kind (complete over kinds), resolve_directive (complete over host/type table), the directive arm of transform_attrs and the no-directive case of the withDirectives region. Every form that carries MODIFIERS goes through std BTreeSet and is out of reach (not claimed).",
         "Same stand-in / stub assumptions; std BTreeSet / split / trim run on concrete names."),
 "C05": ("Contracts on parse_v_model_directive (6 modifier-free forms incl. `v-model:arg={[x]}`), the model-directive selection table of resolve_directive (complete over host x type shapes) and, in the thorough tier (40 GB per harness), the v-model arm of transform_attrs (keys modelValue / computed, listener assigns $event to the target). Forms with modifiers are out of reach (std BTreeSet).",
         "Same stand-in / stub assumptions; generated key texts that go through format! (`fooModifiers`, `onUpdate:foo`) are not checked (format! is a CBMC tarpit)."),
 "C07": ("Unit postconditions 'no JSX / non-program token leaves this function or an error was reported' on transform_tag (namespaced names), parse_directive placeholders, transform_modifiers keys, and the pragma callee. The whole-module statement (every JSX expression replaced, re-parse) is not within reach.",
         "Same stand-in / stub assumptions."),
 "C08": ("Panic-freedom of every unit under contract: Kani checks every reachable panic!, unreachable!, unwrap, index and overflow; specific sites: as_bytes()[0], v-html/v-text unreachable!, attribute literal. Termination and stack depth of resolve_type recursion, and byte-identical repeat runs, are not decided.",
         "Same stand-in / stub assumptions; Kani does not prove termination."),
 "C10": ("2-safety contract on the real is_component: two visitor states that differ only in whether the Fragment helper was imported earlier classify every tag alike.",
         "Same stand-in / stub assumptions; the other state fields (assignment_left, slot counter) need the traversal and are not covered."),
 "C12": ("Unit-level reading only: (i) 2-safety contract on the verbatim plain-attribute arm: two visitors that differ only in `optimize` contribute identical props / merge arguments; (ii) the verbatim hint-emission region of transform_jsx_element appends nothing without optimize and only the flag / dynamic-prop arguments with it, leaving type, props and children arguments untouched; (iii) the real transform_children / wrap_children emit the reserved `_` slot entry only under optimize and the same child list either way. The whole-module relational statement (same rendering for every module) is NOT decided.",
         "Same stand-in / stub assumptions; spread arm, props assembly and directive arms do not read `optimize` (not separately proved as 2-safety); whole-transform relational property out of reach."),
 "C13": ("Chain of contracts on the real code: constants; is_jsx_attr_value_constant (sound constness); every arm of transform_attrs' fold and its finalisation block, extracted verbatim, against one shared step contract from an ARBITRARY analysis state (Kani, complete over the abstract domain); then a Verus induction over that contract for attribute lists of ANY length proving the statement's clauses.",
         "Same stand-in / stub assumptions; A-GLUE (the fold applies the arms in order from the declared initial state: checked syntactically by the extractor and, bounded, by whole-function harnesses in the thorough tier); slot-flag stack discipline across nested elements not covered."),
 "C14": ("Contracts on Options::default() (the documented defaults: complete) and on the private serde visitor RegexVisitor (a pattern is accepted exactly when regex::Regex::new accepts it, so an invalid pattern is rejected while the configuration is read). serde's derive semantics (absent = default, unknown keys ignored) and option isolation are not within reach.", "serde derive is an external dependency (assumed); regex::Regex::new is the stand-in's model (callee contract assumed)."),
 "C15": ("Contracts on get_pragma (precedence comment > option > createVNode import, createVNode imported only when needed: complete) and search_jsx_pragma's comment rule against the spec taken from the statement on 11 comment texts (bounded).",
         "Same stand-in / stub assumptions; comments come from a global-backed Comments stand-in; which comments are scanned (traversal) is not covered."),
 "C17": ("Contract on the real (private) infer_runtime_type for the atom table of the statement: all keyword kinds, literal kinds, 20 built-in names, and array / tuple / function / parenthesised types (one level). Union order, NonNullable, indexed access and the type-list emission were built as harnesses but are out of reach (no verdict at 16-24 GB / 15-30 min) and are NOT claimed.",
         "Same stand-in / stub assumptions; alias / interface / indexed-access recursion not covered."),
 "C20": ("Contracts on is_define_component_call (5 callee shapes x recorded / not), the import recording of visit_mut_import_decl (8 import shapes) and inject_define_component_option for a missing options argument and a spread argument list. The options-LITERAL shapes (user keys win, spreads win) were built as harnesses but are out of reach (no verdict at 40 GB / 40 min) and are NOT claimed.",
         "Same stand-in / stub assumptions; name inference on declarators not covered."),
}
NA = {
 "C03": "Which runtime value kinds select which branch of the emitted `_isSlot(x) ? x : {default}` conditional, and single evaluation of a call child, are JavaScript semantics of emitted code; no installed deductive verifier has one. (The host classification it shares with C01/C02 is decided there.)",
 "C06": "Whole-module scope/TDZ property relating declarations inserted by the traversal (visit_mut_module / visit_mut_stmts / visit_mut_arrow_expr) to uses generated arbitrarily deep; needs the macro-generated swc traversal and hygiene, JS scoping semantics, and ghost state across re-entrant visitor calls: no contract within reach of Kani or Verus expresses it.",
 "C09": "Frame property over the whole traversal (every non-JSX statement unchanged, in order) plus a fixed-point property of the whole transform; needs the VisitMut traversal of the real swc_ecma_visit, which neither verifier can ingest.",
 "C11": "About evaluation order and multiplicity of the emitted JavaScript; the Rust-side counterpart (each embedded expression moved into the output once, in order) is a linearity property over owned AST across transform_attrs / transform_children / wrap_children that needs a JS semantics to state.",
 "C16": "resolve_type_elements / resolve_indexed_access / build_props_type recurse through alias and interface maps over owned TS AST without a termination measure; only the leaf table (C17) is within reach.",
 "C18": "Default-value classification wraps cloned expressions in arrow functions and the claim is about the value Vue resolves at runtime: JavaScript semantics.",
 "C19": "extract_emits_type is resolve_type_elements + resolve_string_or_union_strings over owned TS AST (same reach limit as C16).",
}


def main():
    checks = []
    for pid in sorted(CLAIMS):
        text, note = CLAIMS[pid]
        units = [u for u in registry.UNITS if pid in u["props"]]
        all_complete = all(u["completeness"] == "complete" for u in units if u["tier"] == "quick")
        checks.append(dict(
            property_id=pid,
            quick_cmd="./check %s --tier quick" % pid,
            thorough_cmd="./check %s --tier thorough" % pid,
            evidence_file="/verif/evidence/%s.json" % pid,
            replay_cmd_template="./check %s --replay {path}" % pid,
            engine="kani-contracts",
            level_claimed=dict(category="proof" if all_complete else "model_checking", text=text, design_ref="DESIGN.md section 4, %s" % pid),
            level_note=note,
            technique="contract-based deductive verification: Kani/CBMC function contracts (pre/postconditions as harness assume/assert on the real functions, callees replaced by their spec functions via kani::stub)" + ("; Verus induction lemma over the step contract" if pid == "C13" else ""),
        ))
    m = dict(
        version=1,
        setup_cmd="./setup.sh",
        hooks=dict(guard="cfg(kani)", enable="none needed: /verif/check copies /repo/visitor/src verbatim to /verif/build/crate and appends `#[cfg(kani)] mod verif_harness;` to the COPY of lib.rs (and one `#[cfg(kani)] mod` line to the copy of resolve_type.rs); no hook is committed to /repo",
                   baseline_off_cmd="cd /repo && cargo test --workspace --no-fail-fast --offline", source_commits=[], add_only=True),
        engines=[dict(name="kani-contracts", path="/verif/check", serves_properties=sorted(CLAIMS), kind_free_text="Kani 0.68 / CBMC 6.11 harness-per-contract on the real crate sources against stand-in dependencies; Verus 0.2026.09.13 for the unbounded lemma; replay on the real swc pipeline")],
        checks=checks,
        not_applicable=[dict(property_id=k, reason=v) for k, v in sorted(NA.items())],
        notes="Exit codes of ./check: 0 all obligations discharged (known findings listed as KNOWN-FINDING lines), 1 VIOLATION, 2 undecided (timeout / memory / lost anchor / vacuity guard) -- never reported as a violation.",
    )
    json.dump(m, open(os.path.join(VERIF, "MANIFEST.json"), "w"), indent=1)


if __name__ == "__main__":
    main()
