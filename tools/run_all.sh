#!/bin/bash
# run every claimed property's check (tier $1, default quick) sequentially; logs in /tmp/runall/
cd "$(dirname "$0")/.."
T=${1:-quick}; mkdir -p /tmp/runall
for p in ${PROPS:-C14 C15 C20 C17 C10 C12 C13 C01 C02 C04 C05 C07 C08}; do
  ./check $p --tier $T > /tmp/runall/$p.$T.out 2>&1; echo "$p rc=$?" >> /tmp/runall/summary.$T
done
echo ALLDONE >> /tmp/runall/summary.$T
