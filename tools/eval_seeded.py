#!/usr/bin/env python3
"""Run the registered quick check of each seeded change's property against /repo with the change applied, then undo it.
Usage: eval_seeded.py [--tier quick|thorough] [ids...]   Results: /verif/seeded/RESULTS.json + RESULTS.md"""
import json, os, re, subprocess, sys, time
VERIF = os.path.dirname(os.path.dirname(os.path.abspath(__file__)))
SEEDED = os.path.join(VERIF, "seeded")


def sh(cmd, **kw):
    return subprocess.run(cmd, shell=True, stdout=subprocess.PIPE, stderr=subprocess.STDOUT, text=True, **kw)


def main():
    args = sys.argv[1:]
    tier = "quick"
    if args and args[0] == "--tier":
        tier = args[1]; args = args[2:]
    ids = args or sorted(d for d in os.listdir(SEEDED) if os.path.isdir(os.path.join(SEEDED, d)))
    res_path = os.path.join(SEEDED, "RESULTS.json")
    results = json.load(open(res_path)) if os.path.exists(res_path) else {}
    for i in ids:
        d = os.path.join(SEEDED, i)
        meta = json.load(open(os.path.join(d, "meta.json")))
        prop = meta["property"] if meta["property"] in ("C01", "C02", "C04", "C05", "C07", "C08", "C10", "C12", "C13", "C14", "C15", "C17", "C20") else i.split("-")[0]
        assert sh("git -C /repo status --porcelain").stdout.strip() == "", "/repo not clean"
        a = sh("git -C /repo apply %s/patch.diff" % d)
        if a.returncode != 0:
            results.setdefault(i, {})[tier] = dict(error="patch does not apply: " + a.stdout[-300:])
            continue
        t0 = time.time()
        try:
            r = sh("cd %s && ./check %s --tier %s" % (VERIF, prop, tier), timeout=6 * 3600)
            out, rc = r.stdout, r.returncode
        finally:
            sh("git -C /repo checkout -- .")
        viol = re.findall(r"^VIOLATION .*$", out, re.M)
        und = re.findall(r"^UNDECIDED .*$", out, re.M)
        failed = re.findall(r"^\s+\[(\S+)\] (\S+)\s+fail\s+\S+\s+(.*)$", out, re.M)
        results.setdefault(i, {})[tier] = dict(property=prop, rc=rc, detected=(rc == 1), violations=viol[:6], undecided=len(und),
                                               failed_obligations=[dict(unit=u, harness=h.split("::")[-1], obligation=o[:200]) for u, h, o in failed if u != "CANARY"][:8],
                                               wall_s=round(time.time() - t0), summary=meta.get("summary"))
        json.dump(results, open(res_path, "w"), indent=1)
        print(i, prop, tier, "rc=%d" % rc, "DETECTED" if rc == 1 else "missed/undecided", [f[1].split("::")[-1] for f in failed if f[0] != "CANARY"][:4], flush=True)
    # markdown
    lines = ["# Seeded changes vs checks", "", "| change | property | what it does | quick check | caught by (failed obligation) |", "|---|---|---|---|---|"]
    for i in sorted(results):
        for tier_, r in sorted(results[i].items()):
            if "error" in r:
                lines.append("| %s | | | %s | |" % (i, r["error"])); continue
            fo = "; ".join("%s: %s" % (f["harness"], f["obligation"].strip('"')[:110]) for f in r["failed_obligations"][:2])
            lines.append("| %s | %s | %s | %s (%s, exit %d, %ds) | %s |" % (i, r["property"], (r.get("summary") or "")[:160].replace("|", "/"), "DETECTED" if r["detected"] else "not detected", tier_, r["rc"], r["wall_s"], fo.replace("|", "/")))
    open(os.path.join(SEEDED, "RESULTS.md"), "w").write("\n".join(lines) + "\n")


if __name__ == "__main__":
    main()
