//! Canary: an obligation that MUST fail, behind the same machinery (stubs, build copy, parser).  If this
//! harness ever verifies, the pipeline is vacuous and the whole run is reported as broken (exit 2).
use super::common::*;
use crate::*;
#[kani::proof]
fn canary_must_fail() {
    let a = any_ascii_atom::<3>();
    // false claim: every name that is_on accepts has length 3
    if util::is_on(&a) { assert!(a.len() == 2, "canary: deliberately false postcondition"); }
}

#[derive(Clone)] struct NC(u32);
#[kani::proof] #[kani::unwind(5)] #[kani::stub(std::ptr::drop_in_place, no_drop)] #[kani::stub(core::ptr::drop_glue, no_glue)] #[kani::stub(std::vec::Vec::extend_from_slice, extend_from_slice_model)]
fn guard_model_selfcheck() {
    let mut v: Vec<NC> = Vec::new();
    let src = [NC(1), NC(2)];
    v.extend_from_slice(&src);
    assert!(v.len() == 2, "A-DROP self-check: Vec::extend_from_slice publishes its length (SetLenOnDrop emulated with the right field layout)");
    let w: Vec<NC> = Vec::new();
    assert!(v[0].0 == 1 && v[1].0 == 2, "A-DROP self-check: contents intact, in order");
    std::mem::forget(v); std::mem::forget(w);
}
