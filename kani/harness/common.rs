//! Shared builders, stubs and models for all harnesses.
use crate::*;
use crate::directive::{Directive, NormalDirective, VModelDirective};
pub use swc_core::common::{comments::{Comment, CommentKind, Comments, GlobalComments, NoopComments, SingleThreadedComments}, BytePos, Mark, Span, Spanned, SyntaxContext, DUMMY_SP};
pub use swc_core::ecma::{ast::*, atoms::Atom};
pub use std::borrow::Cow;

/// A-DROP: destructors have no observable effect on the transform's result, so ALL drop glue is removed (the harness leaks).
/// Without this CBMC unwinds the mutually recursive drop glue of the AST forever.  This is false for a few std guard types
/// whose destructor does work; the ones the code under contract can reach are handled explicitly:
///  * `SetLenOnDrop` (inside `Vec::extend_trusted`: `Vec::extend_from_slice` on Clone types, `resize`, exact-size `collect`):
///    `Vec::extend_from_slice` is replaced by `verif_models::extend_from_slice_model` in every harness whose code calls it;
///    the self-check harness `guard_model_selfcheck` fails if the replacement is missing or wrong;
///  * the sort guards (`CopyOnDrop`; reached only through `BTreeSet::from_iter`): thorough-tier units replace
///    `alloc::slice::stable_sort` by `stable_sort_model`;
///  * `vec::Drain` / `Splice` (v-models decoupling) and the `retain` / `dedup` guards: not reached by any unit.
pub unsafe fn no_drop<T: ?Sized>(_p: *mut T) {}
pub unsafe fn no_glue<T: ?Sized>(_p: &mut T) {}
/// A-FMT: `format!` is replaced by a model that returns a marker string; generated *names* built with format!
/// (`_createVNode`, `_slot2`, `ns:name`, `xModifiers`, `onUpdate:x`) are therefore not checked by harnesses
/// that carry this stub (those that need the text use `fmt_concat` instead).
pub fn fmt_marker(_a: std::fmt::Arguments<'_>) -> String { String::from("<fmt>") }

pub type V = VueJsxTransformVisitor<NoopComments>;
pub type VC = VueJsxTransformVisitor<GlobalComments>;
pub const UNRESOLVED: Mark = Mark(63);
pub fn unresolved_ctxt() -> SyntaxContext { SyntaxContext::empty().apply_mark(UNRESOLVED) }
pub fn local_ctxt() -> SyntaxContext { SyntaxContext::empty().apply_mark(Mark(62)) }

pub fn visitor(options: Options) -> V { VueJsxTransformVisitor::new(options, UNRESOLVED, None) }
pub fn options(transform_on: bool, optimize: bool, merge_props: bool, enable_object_slots: bool) -> Options {
    Options { transform_on, optimize, custom_element_patterns: Vec::new(), merge_props, enable_object_slots, pragma: None, resolve_type: false }
}
pub fn any_options() -> Options { options(kani::any(), kani::any(), kani::any(), kani::any()) }
pub fn sp(n: u32) -> Span { Span { lo: BytePos(n), hi: BytePos(n) } }
pub fn idn(s: &str) -> IdentName { IdentName { span: DUMMY_SP, sym: Atom::from(s) } }
pub fn ident(s: &str, ctxt: SyntaxContext) -> Ident { Ident { span: sp(1), ctxt, sym: Atom::from(s), optional: false } }
/// an opaque dynamic expression: `this` tagged by a span id
// Harness inputs live in GLOBALS: CBMC keeps typed globals concrete (a malloc'd `Box<Expr>` / `Vec` buffer is a byte array
// whose enum tags become symbolic, which makes the real code explore every `Expr::Array(..)` / `Expr::Object(..)`
// branch with garbage lengths: minutes instead of seconds).  Nothing is ever dropped (A-DROP), so a Box / Vec that
// points at a global is never freed or reallocated in place (a push beyond capacity copies to a fresh heap buffer).
pub static mut G_E0: Expr = Expr::Invalid(Invalid { span: DUMMY_SP });
pub static mut G_E1: Expr = Expr::Invalid(Invalid { span: DUMMY_SP });
pub static mut G_E2: Expr = Expr::Invalid(Invalid { span: DUMMY_SP });
pub static mut G_E3: Expr = Expr::Invalid(Invalid { span: DUMMY_SP });
pub static mut G_E4: Expr = Expr::Invalid(Invalid { span: DUMMY_SP });
pub static mut G_E5: Expr = Expr::Invalid(Invalid { span: DUMMY_SP });
pub static mut G_E6: Expr = Expr::Invalid(Invalid { span: DUMMY_SP });
pub static mut G_E7: Expr = Expr::Invalid(Invalid { span: DUMMY_SP });
pub static mut G_E8: Expr = Expr::Invalid(Invalid { span: DUMMY_SP });
pub static mut G_E9: Expr = Expr::Invalid(Invalid { span: DUMMY_SP });
pub static mut G_E10: Expr = Expr::Invalid(Invalid { span: DUMMY_SP });
pub static mut G_E11: Expr = Expr::Invalid(Invalid { span: DUMMY_SP });
pub static mut G_E12: Expr = Expr::Invalid(Invalid { span: DUMMY_SP });
pub static mut G_E13: Expr = Expr::Invalid(Invalid { span: DUMMY_SP });
pub static mut G_E14: Expr = Expr::Invalid(Invalid { span: DUMMY_SP });
pub static mut G_E15: Expr = Expr::Invalid(Invalid { span: DUMMY_SP });
pub static mut G_E16: Expr = Expr::Invalid(Invalid { span: DUMMY_SP });
pub static mut G_E17: Expr = Expr::Invalid(Invalid { span: DUMMY_SP });
pub static mut G_E18: Expr = Expr::Invalid(Invalid { span: DUMMY_SP });
pub static mut G_E19: Expr = Expr::Invalid(Invalid { span: DUMMY_SP });
pub static mut G_E20: Expr = Expr::Invalid(Invalid { span: DUMMY_SP });
pub static mut G_E21: Expr = Expr::Invalid(Invalid { span: DUMMY_SP });
pub static mut G_E22: Expr = Expr::Invalid(Invalid { span: DUMMY_SP });
pub static mut G_E23: Expr = Expr::Invalid(Invalid { span: DUMMY_SP });
pub static mut G_E24: Expr = Expr::Invalid(Invalid { span: DUMMY_SP });
pub static mut G_E25: Expr = Expr::Invalid(Invalid { span: DUMMY_SP });
pub static mut G_E26: Expr = Expr::Invalid(Invalid { span: DUMMY_SP });
pub static mut G_E27: Expr = Expr::Invalid(Invalid { span: DUMMY_SP });
pub static mut G_NEXT: u32 = 0;
/// harnesses whose real code BRANCHES on the shape of input expressions (parse_directive, is_constant) switch this on;
/// for the others plain heap boxes are cheaper (fewer candidate objects per dereference).
pub static mut G_ON: bool = false;
pub fn use_global_inputs() { unsafe { G_ON = true; } }
/// with global-backed inputs the real code may "free" a box that points at a global: nothing is ever freed (A-DROP)
pub unsafe fn no_dealloc(_ptr: *mut u8, _layout: std::alloc::Layout) {}
/// box `e` in the next free global slot (or on the heap when global inputs are off)
pub fn bx(e: Expr) -> Box<Expr> {
    unsafe {
        if !G_ON { return Box::new(e); }
        let slot = G_NEXT; G_NEXT += 1;
        match slot {
        0 => { G_E0 = e; Box::from_raw(core::ptr::addr_of_mut!(G_E0)) }
        1 => { G_E1 = e; Box::from_raw(core::ptr::addr_of_mut!(G_E1)) }
        2 => { G_E2 = e; Box::from_raw(core::ptr::addr_of_mut!(G_E2)) }
        3 => { G_E3 = e; Box::from_raw(core::ptr::addr_of_mut!(G_E3)) }
        4 => { G_E4 = e; Box::from_raw(core::ptr::addr_of_mut!(G_E4)) }
        5 => { G_E5 = e; Box::from_raw(core::ptr::addr_of_mut!(G_E5)) }
        6 => { G_E6 = e; Box::from_raw(core::ptr::addr_of_mut!(G_E6)) }
        7 => { G_E7 = e; Box::from_raw(core::ptr::addr_of_mut!(G_E7)) }
        8 => { G_E8 = e; Box::from_raw(core::ptr::addr_of_mut!(G_E8)) }
        9 => { G_E9 = e; Box::from_raw(core::ptr::addr_of_mut!(G_E9)) }
        10 => { G_E10 = e; Box::from_raw(core::ptr::addr_of_mut!(G_E10)) }
        11 => { G_E11 = e; Box::from_raw(core::ptr::addr_of_mut!(G_E11)) }
        12 => { G_E12 = e; Box::from_raw(core::ptr::addr_of_mut!(G_E12)) }
        13 => { G_E13 = e; Box::from_raw(core::ptr::addr_of_mut!(G_E13)) }
        14 => { G_E14 = e; Box::from_raw(core::ptr::addr_of_mut!(G_E14)) }
        15 => { G_E15 = e; Box::from_raw(core::ptr::addr_of_mut!(G_E15)) }
        16 => { G_E16 = e; Box::from_raw(core::ptr::addr_of_mut!(G_E16)) }
        17 => { G_E17 = e; Box::from_raw(core::ptr::addr_of_mut!(G_E17)) }
        18 => { G_E18 = e; Box::from_raw(core::ptr::addr_of_mut!(G_E18)) }
        19 => { G_E19 = e; Box::from_raw(core::ptr::addr_of_mut!(G_E19)) }
        20 => { G_E20 = e; Box::from_raw(core::ptr::addr_of_mut!(G_E20)) }
        21 => { G_E21 = e; Box::from_raw(core::ptr::addr_of_mut!(G_E21)) }
        22 => { G_E22 = e; Box::from_raw(core::ptr::addr_of_mut!(G_E22)) }
        23 => { G_E23 = e; Box::from_raw(core::ptr::addr_of_mut!(G_E23)) }
        24 => { G_E24 = e; Box::from_raw(core::ptr::addr_of_mut!(G_E24)) }
        25 => { G_E25 = e; Box::from_raw(core::ptr::addr_of_mut!(G_E25)) }
        26 => { G_E26 = e; Box::from_raw(core::ptr::addr_of_mut!(G_E26)) }
        27 => { G_E27 = e; Box::from_raw(core::ptr::addr_of_mut!(G_E27)) }
        _ => Box::new(e),
        }
    }
}
macro_rules! gvec_pool { ($fname:ident, $t:ty, $init:expr, $($s:ident),*) => {
    $(pub static mut $s: [$t; 4] = [const { $init }; 4];)*
    /// a Vec<$t> of up to 4 items whose buffer is a global array (capacity == length)
    pub fn $fname<const N: usize>(items: [$t; N]) -> Vec<$t> {
        unsafe {
            static mut NEXT: u32 = 0;
            let k = NEXT; NEXT += 1;
            let mut it = items.into_iter();
            if !G_ON { let mut out = Vec::new(); for x in it { out.push(x); } return out; }
            let mut pool: [*mut [$t; 4]; 6] = [$(core::ptr::addr_of_mut!($s)),*];
            if N > 4 || k >= 6 { let mut out = Vec::new(); for x in it { out.push(x); } return out; }
            let p = pool[k as usize];
            let mut i = 0;
            while i < N { match it.next() { Some(x) => { core::ptr::write(&mut (*p)[i], x); } None => {} } i += 1; }
            Vec::from_raw_parts(p as *mut $t, N, N)
        }
    }
} }
gvec_pool!(gvec_elems, Option<ExprOrSpread>, None, GV_E0, GV_E1, GV_E2, GV_E3, GV_E4, GV_E5);
gvec_pool!(gvec_children, Option<JSXElementChild>, None, GV_C0, GV_C1, GV_C2, GV_C3, GV_C4, GV_C5);
pub fn opaque(n: u32) -> Box<Expr> { bx(Expr::This(ThisExpr { span: sp(100 + n) })) }
pub fn is_opaque(e: &Expr, n: u32) -> bool { matches!(e, Expr::This(ThisExpr { span }) if span.lo.0 == 100 + n) }
pub fn strlit(s: &str) -> Box<Expr> { bx(Expr::Lit(Lit::Str(Str { span: sp(2), value: Atom::from(s), raw: None }))) }
pub fn is_strlit(e: &Expr, s: &str) -> bool { matches!(e, Expr::Lit(Lit::Str(x)) if &*x.value == s) }
pub fn numlit(v: f64) -> Box<Expr> { bx(Expr::Lit(Lit::Num(Number { span: sp(2), value: v, raw: None }))) }
pub fn el(e: Box<Expr>) -> Option<ExprOrSpread> { Some(ExprOrSpread { spread: None, expr: e }) }
pub fn array(elems: Vec<Option<ExprOrSpread>>) -> Box<Expr> { bx(Expr::Array(ArrayLit { span: sp(3), elems })) }
/// array literal whose element buffer is a global (N <= 4)
pub fn garray<const N: usize>(items: [Option<ExprOrSpread>; N]) -> Box<Expr> { bx(Expr::Array(ArrayLit { span: sp(3), elems: gvec_elems(items) })) }
pub fn container(e: Box<Expr>) -> JSXAttrValue { JSXAttrValue::JSXExprContainer(JSXExprContainer { span: sp(4), expr: JSXExpr::Expr(e) }) }
pub fn jsx_attr(name: &str, value: Option<JSXAttrValue>) -> JSXAttr { JSXAttr { span: sp(5), name: JSXAttrName::Ident(idn(name)), value } }
pub fn jsx_ns_attr(ns: &str, name: &str, value: Option<JSXAttrValue>) -> JSXAttr {
    JSXAttr { span: sp(5), name: JSXAttrName::JSXNamespacedName(JSXNamespacedName { span: sp(5), ns: idn(ns), name: idn(name) }), value }
}
pub fn attr(name: &str, value: Option<JSXAttrValue>) -> JSXAttrOrSpread { JSXAttrOrSpread::JSXAttr(jsx_attr(name, value)) }
pub fn ns_attr(ns: &str, name: &str, value: Option<JSXAttrValue>) -> JSXAttrOrSpread { JSXAttrOrSpread::JSXAttr(jsx_ns_attr(ns, name, value)) }
pub fn spread(e: Box<Expr>) -> JSXAttrOrSpread { JSXAttrOrSpread::SpreadElement(SpreadElement { dot3_token: sp(6), expr: e }) }
pub fn str_value(s: &str) -> JSXAttrValue { JSXAttrValue::Lit(Lit::Str(Str { span: sp(2), value: Atom::from(s), raw: None })) }
pub fn empty_jsx_element(tag: &str, ctxt: SyntaxContext) -> JSXElement {
    JSXElement { span: sp(7), opening: JSXOpeningElement { name: JSXElementName::Ident(ident(tag, ctxt)), span: sp(7), attrs: Vec::new(), self_closing: true, type_args: None }, children: Vec::new(), closing: None }
}
pub fn jsx_fragment() -> JSXFragment { JSXFragment { span: sp(8), opening: JSXOpeningFragment { span: sp(8) }, children: Vec::new(), closing: JSXClosingFragment { span: sp(8) } } }

/// symbolic ASCII atom of length <= N (N <= 31)
pub fn any_ascii_atom<const N: usize>() -> Atom {
    let len: u8 = kani::any();
    kani::assume((len as usize) <= N);
    let mut buf = [0u8; 31];
    let mut i = 0;
    while i < N {
        let b: u8 = kani::any();
        kani::assume(b < 128);
        if i < len as usize { buf[i] = b; }
        i += 1;
    }
    Atom::from_raw(len, buf)
}
/// symbolic atom of length <= N over a small alphabet
pub fn any_atom_over<const N: usize>(alphabet: &[u8]) -> Atom {
    let len: u8 = kani::any();
    kani::assume((len as usize) <= N);
    let mut buf = [0u8; 31];
    let mut i = 0;
    while i < N {
        let k: u8 = kani::any();
        kani::assume((k as usize) < alphabet.len());
        if i < len as usize { buf[i] = alphabet[k as usize]; }
        i += 1;
    }
    Atom::from_raw(len, buf)
}

// ---- readers over produced object literals ----
pub fn prop_key_str<'a>(p: &'a PropOrSpread) -> Option<&'a str> {
    match p { PropOrSpread::Prop(p) => match &**p { Prop::KeyValue(KeyValueProp { key: PropName::Str(s), .. }) => Some(&*s.value), Prop::KeyValue(KeyValueProp { key: PropName::Ident(s), .. }) => Some(&*s.sym), _ => None }, _ => None }
}
pub fn prop_value<'a>(p: &'a PropOrSpread) -> Option<&'a Expr> {
    match p { PropOrSpread::Prop(p) => match &**p { Prop::KeyValue(KeyValueProp { value, .. }) => Some(&**value), _ => None }, _ => None }
}
pub fn find_prop<'a>(props: &'a [PropOrSpread], key: &str) -> Option<&'a Expr> {
    let mut i = 0;
    while i < props.len() { if prop_key_str(&props[i]) == Some(key) { return prop_value(&props[i]); } i += 1; }
    None
}
pub fn dyn_contains(dp: &Option<indexmap::IndexSet<Cow<'_, str>>>, name: &str) -> bool {
    match dp { Some(s) => { let mut i = 0; while i < s.0.len() { if &*s.0[i] == name { return true; } i += 1; } false } None => false }
}
pub fn dyn_len(dp: &Option<indexmap::IndexSet<Cow<'_, str>>>) -> usize { match dp { Some(s) => s.0.len(), None => 0 } }
/// is `e` a call `callee(args..)` where callee is an identifier whose text is `name`
pub fn call_of<'a>(e: &'a Expr, name: &str) -> Option<&'a Vec<ExprOrSpread>> {
    match e { Expr::Call(CallExpr { callee: Callee::Expr(c), args, .. }) => match &**c { Expr::Ident(i) if &*i.sym == name => Some(args), _ => None }, _ => None }
}
pub fn errors() -> u32 { swc_core::plugin::errors::error_count() }

pub fn is_import<C: Comments>(v: &VueJsxTransformVisitor<C>, e: &Expr, item: &str) -> bool {
    match (e, v.vue_imports.get(item)) { (Expr::Ident(t), Some(i)) => t.ctxt == i.ctxt && t.sym == i.sym, _ => false }
}
pub fn call_parts(e: &Expr) -> Option<(&Expr, &Vec<ExprOrSpread>)> {
    match e { Expr::Call(CallExpr { callee: Callee::Expr(c), args, .. }) => Some((&**c, args)), _ => None }
}

// ---- callee models used as stubs in caller harnesses ----
/// oracle for util::is_jsx_attr_value_constant (contract proved in leaf.rs: true only for render-invariant values)
pub static mut CONST_ORACLE: bool = false;
pub fn const_model(_v: &JSXAttrValue) -> bool { unsafe { CONST_ORACLE } }
/// marker model for util::transform_text: the caller must emit exactly what transform_text returned
pub fn tt_marker(_text: &str) -> String { String::from("<tt>") }
/// model for directive::parse_directive driven by PD_KIND (its own contract is proved in dirs.rs)
pub static mut PD_KIND: u8 = 0;
pub fn pd_model(_jsx_attr: &JSXAttr, is_component: bool) -> Directive {
    let mods = || Some(Expr::Object(ObjectLit { span: sp(30), props: Vec::new() }));
    match unsafe { PD_KIND } {
        0 => Directive::Normal(NormalDirective { name: Atom::from("foo"), argument: None, modifiers: None, value: *opaque(9) }),
        1 => Directive::Html(*opaque(9)),
        2 => Directive::Text(*opaque(9)),
        3 => Directive::VModel(VModelDirective { argument: None, transformed_argument: None, modifiers: None, value: *opaque(9) }),
        4 => Directive::VModel(VModelDirective { argument: Some(*strlit("foo")), transformed_argument: Some(*strlit("foo")), modifiers: mods(), value: *opaque(9) }),
        5 => Directive::VModel(VModelDirective { argument: Some(*opaque(8)), transformed_argument: Some(*opaque(8)), modifiers: mods(), value: *opaque(9) }),
        6 => Directive::VModel(VModelDirective { argument: Some(Expr::Lit(Lit::Null(Null { span: DUMMY_SP }))), transformed_argument: None, modifiers: mods(), value: *opaque(9) }),
        7 => Directive::Slots(Some(opaque(7))),
        _ => Directive::Slots(None),
    }
}

pub use verif_models::extend_from_slice_model;

// global slots for TS type inputs (same rationale as `bx`): infer_runtime_type / resolve_indexed_access branch on the type's shape
pub static mut G_T0: TsType = TsType::TsThisType(TsThisType { span: DUMMY_SP });
pub static mut G_T1: TsType = TsType::TsThisType(TsThisType { span: DUMMY_SP });
pub static mut G_T2: TsType = TsType::TsThisType(TsThisType { span: DUMMY_SP });
pub static mut G_T3: TsType = TsType::TsThisType(TsThisType { span: DUMMY_SP });
pub static mut G_T4: TsType = TsType::TsThisType(TsThisType { span: DUMMY_SP });
pub static mut G_T5: TsType = TsType::TsThisType(TsThisType { span: DUMMY_SP });
pub static mut G_T6: TsType = TsType::TsThisType(TsThisType { span: DUMMY_SP });
pub static mut G_T7: TsType = TsType::TsThisType(TsThisType { span: DUMMY_SP });
pub static mut G_T8: TsType = TsType::TsThisType(TsThisType { span: DUMMY_SP });
pub static mut G_T9: TsType = TsType::TsThisType(TsThisType { span: DUMMY_SP });
pub static mut G_TNEXT: u32 = 0;
pub fn bxt(t: TsType) -> Box<TsType> {
    unsafe {
        if !G_ON { return Box::new(t); }
        let slot = G_TNEXT; G_TNEXT += 1;
        match slot {
        0 => { G_T0 = t; Box::from_raw(core::ptr::addr_of_mut!(G_T0)) }
        1 => { G_T1 = t; Box::from_raw(core::ptr::addr_of_mut!(G_T1)) }
        2 => { G_T2 = t; Box::from_raw(core::ptr::addr_of_mut!(G_T2)) }
        3 => { G_T3 = t; Box::from_raw(core::ptr::addr_of_mut!(G_T3)) }
        4 => { G_T4 = t; Box::from_raw(core::ptr::addr_of_mut!(G_T4)) }
        5 => { G_T5 = t; Box::from_raw(core::ptr::addr_of_mut!(G_T5)) }
        6 => { G_T6 = t; Box::from_raw(core::ptr::addr_of_mut!(G_T6)) }
        7 => { G_T7 = t; Box::from_raw(core::ptr::addr_of_mut!(G_T7)) }
        8 => { G_T8 = t; Box::from_raw(core::ptr::addr_of_mut!(G_T8)) }
        9 => { G_T9 = t; Box::from_raw(core::ptr::addr_of_mut!(G_T9)) }
        _ => Box::new(t),
        }
    }
}
