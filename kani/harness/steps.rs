//! U-step-*: the arm bodies of `transform_attrs` (extracted verbatim by tools/extract.py into `extracted.rs`) against
//! the shared step contract (`specs_shared.rs`, same text as the Verus lemma's hypotheses), from an ARBITRARY
//! analysis state.  Together with L-flags (Verus) this covers attribute lists of any length (C13); the props
//! pushed by each arm are checked against C01 / C04 / C05.
use super::common::*;
use super::extracted::AttrState;
use super::specs_shared::*;
use crate::*;

fn flag_bits(f: Flags) -> i16 { (f.cls as i16) * 2 + (f.sty as i16) * 4 + (f.props as i16) * 8 + (f.full as i16) * 16 + (f.hyd as i16) * 32 + (f.need_patch as i16) * 512 }

struct Pre { has_ref: bool, cls: bool, sty: bool, hyd: bool, dynkeys: bool, dp_zz: bool, props_pp: bool, merge_m: bool }
fn any_state<'a>() -> (AttrState<'a>, Pre) { any_state_with::<'a, true>() }
/// FULL = false: analysis booleans symbolic, earlier props / merge arguments / dynamic props empty (cheaper)
fn any_state_with<'a, const FULL: bool>() -> (AttrState<'a>, Pre) {
    let p = Pre { has_ref: kani::any(), cls: kani::any(), sty: kani::any(), hyd: kani::any(), dynkeys: kani::any(),
        dp_zz: if FULL { kani::any() } else { false }, props_pp: if FULL { kani::any() } else { false }, merge_m: if FULL { kani::any() } else { false } };
    let mut st = AttrState::initial();
    st.has_ref = p.has_ref; st.has_class_binding = p.cls; st.has_style_binding = p.sty; st.has_hydration_event_binding = p.hyd; st.has_dynamic_keys = p.dynkeys;
    if p.dp_zz { st.dynamic_props.insert(Cow::from("zz")); }
    if p.props_pp { st.props.push(PropOrSpread::Prop(Box::new(Prop::KeyValue(KeyValueProp { key: PropName::Str(Str { span: DUMMY_SP, value: Atom::from("pp"), raw: None }), value: opaque(7) })))); }
    if p.merge_m { st.merge_args.push(*opaque(6)); }
    (st, p)
}
fn dp_has(st: &AttrState<'_>, n: &str) -> bool { let mut i = 0; while i < st.dynamic_props.0.len() { if &*st.dynamic_props.0[i] == n { return true; } i += 1; } false }
fn frame_ok(st: &AttrState<'_>, p: &Pre) -> bool {
    // what was there before is still there, in place
    (!p.props_pp || (st.props.len() >= 1 && prop_key_str(&st.props[0]) == Some("pp")))
        && (!p.merge_m || (st.merge_args.len() >= 1 && is_opaque(&st.merge_args[0], 6)))
        && (dp_has(st, "zz") == p.dp_zz)
}

fn ncls_name(n: i64, lower_click: bool) -> &'static str {
    match n { 0 => "ref", 1 => "class", 2 => "style", 3 => "key", 4 => "on", 5 => "nativeOn", 6 => if lower_click { "onclick" } else { "onClick" }, 7 => "onUpdate:modelValue", 8 => "onFoo", _ => "id" }
}
fn value_ok(e: &Expr, val: u8) -> bool {
    match val { 0 => is_opaque(e, 1), 1 => matches!(e, Expr::Lit(Lit::Bool(Bool { value: true, .. }))), _ => is_strlit(e, "<tt>") }
}

/// plain-attribute arm == plain_effect (shared contract) from any state; pushed prop == the written attribute (C01)
fn step_plain<const NCLS: i64, const VAL: u8, const LOWER: bool, const FULL: bool>() {
    let name = ncls_name(NCLS, LOWER);
    let comp: bool = kani::any();
    let opts = any_options();
    let ton = opts.transform_on;
    let mut v = visitor(opts);
    let c: bool = if VAL == 2 { true } else { kani::any() };
    unsafe { CONST_ORACLE = c; }
    let eff_const = VAL != 1 && c;   // a value-less attribute is treated as non-constant by the code (over-approximation)
    let a = jsx_attr(name, match VAL { 0 => Some(container(opaque(1))), 1 => None, _ => Some(str_value("lit")) });
    let (mut st, p) = any_state_with::<FULL>();
    let n_props = st.props.len(); let n_merge = st.merge_args.len(); let n_dp = st.dynamic_props.0.len();
    v.x_plain_arm(&mut st, &a, comp);
    let e = plain_effect(NCLS, eff_const, comp, ton);
    assert!(st.has_ref == (p.has_ref || e.set_ref), "U-step-plain: has_ref == pre || attribute is `ref`");
    assert!(st.has_class_binding == (p.cls || e.set_cls), "U-step-plain: class binding set exactly by a dynamic `class` on an element");
    assert!(st.has_style_binding == (p.sty || e.set_sty), "U-step-plain: style binding set exactly by a dynamic `style` on an element");
    assert!(st.has_hydration_event_binding == (p.hyd || e.set_hyd), "U-step-plain: hydration bit set exactly by a dynamic non-click, non-onUpdate:modelValue listener on an element");
    assert!(st.has_dynamic_keys == p.dynkeys && st.slots.is_none(), "U-step-plain: a plain attribute does not touch has_dynamic_keys / slots");
    assert!(dp_has(&st, name) == e.dp_insert && st.dynamic_props.0.len() == n_dp + (e.dp_insert as usize), "U-step-plain: the attribute name is recorded as dynamic prop exactly when the contract says so");
    assert!(frame_ok(&st, &p), "U-step-plain: earlier props / merge arguments / dynamic props are kept in place");
    if e.merged {
        assert!(st.props.len() == n_props && st.merge_args.len() == n_merge + 1, "U-step-plain: `on`/`nativeOn` under transformOn goes to the merge arguments, not to props");
        let parts = call_parts(&st.merge_args[n_merge]);
        assert!(matches!(parts, Some((Expr::Ident(h), args)) if Some(h.ctxt) == v.transform_on_helper.as_ref().map(|i| i.ctxt) && args.len() == 1 && args[0].spread.is_none() && value_ok(&args[0].expr, VAL)), "C01: transformOn(<value>) with the transformOn helper");
        // C13 (statement): a merged attribute must force FULL_PROPS or leave no named dynamic prop behind
        assert!(!e.dp_insert, "C13: an attribute merged through transformOn is not listed as a named dynamic prop");
    } else {
        assert!(st.merge_args.len() == n_merge && st.props.len() == n_props + 1, "U-step-plain: exactly one prop is pushed");
        assert!(prop_key_str(&st.props[n_props]) == Some(name), "C01: the prop key is the written attribute name");
        assert!(matches!(prop_value(&st.props[n_props]), Some(x) if value_ok(x, VAL)), "C01: the prop value is the written expression / `true` / the normalised string");
    }
    kani::cover!(comp && p.has_ref, "component host, ref seen earlier: reachable");
    kani::cover!(!comp && !p.hyd, "element host, no hydration binding yet: reachable");
    std::mem::forget(st); std::mem::forget(a); std::mem::forget(v);
}
macro_rules! stp { ($($n:ident: $k:expr, $v:expr, $l:expr, $f:expr;)*) => { $(#[kani::proof] #[kani::unwind(3)]
    #[kani::stub(std::ptr::drop_in_place, no_drop)] #[kani::stub(core::ptr::drop_glue, no_glue)] #[kani::stub(std::vec::Vec::extend_from_slice, extend_from_slice_model)]
    #[kani::stub(crate::util::transform_text, tt_marker)] #[kani::stub(crate::util::is_jsx_attr_value_constant, const_model)] #[kani::stub(alloc::fmt::format, fmt_marker)]
    fn $n() { step_plain::<$k, $v, $l, $f>() })* } }
stp! {
    step_ref: 0, 0, false, false; step_class: 1, 0, false, false; step_style: 2, 0, false, false; step_key: 3, 0, false, false; step_on: 4, 0, false, false; step_nativeon: 5, 0, false, false;
    step_onupdate_mv: 7, 0, false, false; step_listener: 8, 0, false, false; step_other: 9, 0, false, false; step_other_fullstate: 9, 0, false, true; step_nativeon_fullstate: 5, 0, false, true;
    step_other_valueless: 9, 1, false, false; step_other_string: 9, 2, false, false; step_class_string: 1, 2, false, false; step_listener_valueless: 8, 1, false, false; step_ref_string: 0, 2, false, false;
}

macro_rules! stp9 { ($($n:ident: $k:expr, $v:expr, $l:expr, $f:expr;)*) => { $(#[kani::proof] #[kani::unwind(9)]
    #[kani::stub(std::ptr::drop_in_place, no_drop)] #[kani::stub(core::ptr::drop_glue, no_glue)] #[kani::stub(std::vec::Vec::extend_from_slice, extend_from_slice_model)]
    #[kani::stub(crate::util::transform_text, tt_marker)] #[kani::stub(crate::util::is_jsx_attr_value_constant, const_model)] #[kani::stub(alloc::fmt::format, fmt_marker)]
    fn $n() { step_plain::<$k, $v, $l, $f>() })* } }
stp9! { step_onclick_camel: 6, 0, false, false; step_onclick_lower: 6, 0, true, false; }

/// spread arm (C01 spread placement per mergeProps; C13 spreads force has_dynamic_keys)
fn step_spread<const OBJ: bool, const PREV: bool, const MERGE: bool>() {
    // container shapes are concrete per harness (an earlier prop or not; mergeProps on or off): symbolic shapes multiply the SAT instance
    let mut opts = any_options();
    opts.merge_props = MERGE;
    let merge = MERGE;
    let mut v = visitor(opts);
    let kv = PropOrSpread::Prop(Box::new(Prop::KeyValue(KeyValueProp { key: PropName::Ident(idn("k")), value: opaque(3) })));
    let s = SpreadElement { dot3_token: sp(6), expr: if OBJ { Box::new(Expr::Object(ObjectLit { span: sp(3), props: vec![kv] })) } else { opaque(2) } };
    let (mut st, p) = any_state_with::<false>();
    let one_prop: bool = PREV;
    if one_prop { st.props.push(PropOrSpread::Prop(Box::new(Prop::KeyValue(KeyValueProp { key: PropName::Str(Str { span: DUMMY_SP, value: Atom::from("pp"), raw: None }), value: opaque(7) })))); }
    let p = Pre { props_pp: one_prop, ..p };
    let n_props = st.props.len(); let n_merge = st.merge_args.len();
    v.x_spread_arm(&mut st, &s);
    assert!(st.has_dynamic_keys, "C13: a spread forces has_dynamic_keys (FULL_PROPS)");
    assert!(st.has_ref == p.has_ref && st.has_class_binding == p.cls && st.has_style_binding == p.sty && st.has_hydration_event_binding == p.hyd && st.slots.is_none() && dp_has(&st, "zz") == p.dp_zz, "U-step-spread: nothing else in the analysis state changes");
    if merge {
        // props written before the spread are closed into an object argument, then the spread argument follows: source order
        let closed = p.props_pp as usize;
        assert!(st.props.is_empty() && st.merge_args.len() == n_merge + closed + 1, "C01: with mergeProps, earlier props become one merge argument and the spread another, in source order");
        if p.merge_m { assert!(is_opaque(&st.merge_args[0], 6), "C01: earlier merge arguments stay first"); }
        if p.props_pp { assert!(matches!(&st.merge_args[n_merge], Expr::Object(o) if o.props.len() == 1 && prop_key_str(&o.props[0]) == Some("pp")), "C01: earlier props keep their place before the spread"); }
        let last = &st.merge_args[st.merge_args.len() - 1];
        if OBJ { assert!(matches!(last, Expr::Object(o) if o.props.len() == 1 && prop_key_str(&o.props[0]) == Some("k")), "C01: an object-literal spread is merged as that object"); }
        else { assert!(is_opaque(last, 2), "C01: a spread argument is merged as that expression"); }
    } else {
        assert!(st.merge_args.len() == n_merge, "DBG merge_args unchanged");
        assert!(st.props.len() >= n_props, "DBG props not shrunk");
        assert!(st.props.len() <= n_props + 1, "DBG props at most +1");
        assert!(st.props.len() == n_props + 1, "C01: without mergeProps the spread stays in the props object (last-wins)");
        if p.props_pp { assert!(prop_key_str(&st.props[0]) == Some("pp"), "C01: earlier props stay before the spread"); }
        let last = &st.props[n_props];
        if OBJ { assert!(prop_key_str(last) == Some("k"), "C01: an object-literal spread is inlined in place"); }
        else { assert!(matches!(last, PropOrSpread::Spread(x) if is_opaque(&x.expr, 2)), "C01: a spread argument is spread in place"); }
    }
    std::mem::forget(st); std::mem::forget(s); std::mem::forget(v);
}
pub fn dedupe_identity(props: Vec<PropOrSpread>) -> Vec<PropOrSpread> { props }
macro_rules! sts { ($($n:ident: $k:expr, $p:expr, $m:expr;)*) => { $(#[kani::proof] #[kani::unwind(4)]
    #[kani::stub(std::ptr::drop_in_place, no_drop)] #[kani::stub(core::ptr::drop_glue, no_glue)] #[kani::stub(std::vec::Vec::extend_from_slice, extend_from_slice_model)] #[kani::stub(alloc::fmt::format, fmt_marker)]
    #[kani::stub(crate::util::dedupe_props, dedupe_identity)]
    fn $n() { step_spread::<$k, $p, $m>() })* } }
sts! { step_spread_expr_merge: false, false, true; step_spread_expr_nomerge: false, false, false; step_spread_expr_prev_merge: false, true, true; step_spread_expr_prev_nomerge: false, true, false;
       step_spread_object_merge: true, false, true; step_spread_object_nomerge: true, false, false; step_spread_object_prev_merge: true, true, true; step_spread_object_prev_nomerge: true, true, false; }

/// finalisation block == final_flags (shared contract), for every combination of the analysis booleans (complete)
#[kani::proof] #[kani::unwind(3)] #[kani::stub(std::ptr::drop_in_place, no_drop)] #[kani::stub(core::ptr::drop_glue, no_glue)] #[kani::stub(std::vec::Vec::extend_from_slice, extend_from_slice_model)]
fn step_finalize() {
    let (dynkeys, cls, sty, hyd, has_ref, dp_nonempty, has_dirs): (bool, bool, bool, bool, bool, bool, bool) = kani::any();
    let mut dp: indexmap::IndexSet<Cow<'static, str>> = indexmap::IndexSet::new();
    if dp_nonempty { dp.insert(Cow::from("zz")); }
    let mut dirs: Vec<directive::NormalDirective> = Vec::new();
    if has_dirs { dirs.push(directive::NormalDirective { name: Atom::from("d"), argument: None, modifiers: None, value: *opaque(1) }); }
    let f = V::x_finalize(dynkeys, cls, sty, hyd, has_ref, &dp, &dirs);
    let spec = final_flags(dynkeys, cls, sty, dp_nonempty, hyd, has_ref, has_dirs);
    assert!(f.bits() == flag_bits(spec), "U-flagfinal: finalisation block == final_flags contract");
    // the statement's clauses, directly
    assert!(f.bits() >= 0, "C13: negative (hoist/bail) flags are never emitted");
    assert!(!dynkeys || (f.bits() & 16 != 0 && f.bits() & (2 | 4 | 8) == 0), "C13: computed/spread keys carry FULL_PROPS and none of CLASS/STYLE/PROPS");
    assert!(!(has_ref || has_dirs) || (f.bits() != 32 && f.bits() != 0), "C13: a vnode with a ref or runtime directive is never left with the hydration bit alone");
    kani::cover!(f.bits() == 0, "no flag reachable");
    kani::cover!(f.bits() == 512, "NEED_PATCH alone reachable");
    std::mem::forget(dp); std::mem::forget(dirs);
}

/// props-expression assembly (C01: spreads combined with mergeProps when on, plain object otherwise; null without attributes)
fn assemble<const NP: u8, const NM: u8>() {
    let opts = any_options();
    let merge = opts.merge_props;
    let mut v = visitor(opts);
    let mk = |k: &str, n: u32| PropOrSpread::Prop(Box::new(Prop::KeyValue(KeyValueProp { key: PropName::Str(Str { span: DUMMY_SP, value: Atom::from(k), raw: None }), value: opaque(n) })));
    let props: Vec<PropOrSpread> = match NP { 0 => Vec::new(), 1 => vec![mk("pa", 1)], 2 => vec![mk("pa", 1), mk("pb", 2)], 4 => vec![mk("pa", 1), mk("pa", 2)], 5 => vec![mk("class", 1), mk("class", 2)],
        _ => vec![PropOrSpread::Spread(SpreadElement { dot3_token: sp(6), expr: opaque(5) })] };
    let margs: Vec<Expr> = match NM { 0 => Vec::new(), 1 => vec![*opaque(10)], _ => vec![*opaque(10), *opaque(11)] };
    let e = v.x_assemble(props, margs);
    match (NP, NM) {
        (0, 0) => assert!(matches!(&e, Expr::Lit(Lit::Null(..))), "C01: no props at all gives null"),
        (3, 0) => assert!(is_opaque(&e, 5), "C01: a lone spread is passed as the props object itself"),
        (4, 0) => {
            // repeated ordinary attribute: plain last-wins object semantics when mergeProps is off (both entries kept, in order)
            if !merge { assert!(matches!(&e, Expr::Object(o) if o.props.len() == 2 && matches!(prop_value(&o.props[0]), Some(x) if is_opaque(x, 1)) && matches!(prop_value(&o.props[1]), Some(x) if is_opaque(x, 2))), "C01: with mergeProps off repeated attributes are kept as written (last wins at runtime)"); }
            else { assert!(matches!(&e, Expr::Object(o) if o.props.len() == 1 && prop_key_str(&o.props[0]) == Some("pa")), "C01: with mergeProps on a repeated ordinary attribute is merged statically into one entry"); }
        }
        (5, 0) => {
            if !merge { assert!(matches!(&e, Expr::Object(o) if o.props.len() == 2), "C01: with mergeProps off repeated class attributes are kept as written"); }
            else { assert!(matches!(&e, Expr::Object(o) if o.props.len() == 1 && matches!(prop_value(&o.props[0]), Some(Expr::Array(a)) if a.elems.len() == 2 && matches!(&a.elems[0], Some(x) if is_opaque(&x.expr, 1)) && matches!(&a.elems[1], Some(x) if is_opaque(&x.expr, 2)))), "C01: with mergeProps on repeated class values are merged into one array in source order"); }
        }
        (_, 0) => assert!(matches!(&e, Expr::Object(o) if o.props.len() == NP as usize && prop_key_str(&o.props[0]) == Some("pa") && (NP < 2 || prop_key_str(&o.props[1]) == Some("pb"))), "C01: props become one object literal in source order"),
        (0, 1) => assert!(is_opaque(&e, 10), "C01: a single merge argument is used as is"),
        _ => {
            let parts = call_parts(&e);
            let n_args = NM as usize + (if NP > 0 { 1 } else { 0 });
            assert!(matches!(parts, Some((c, args)) if is_import(&v, c, "mergeProps") && args.len() == n_args && is_opaque(&args[0].expr, 10) && (NM < 2 || is_opaque(&args[1].expr, 11))
                && (NP == 0 || matches!(&*args[n_args - 1].expr, Expr::Object(o) if o.props.len() >= 1))), "C01: several merge arguments are combined by Vue's mergeProps in source order, trailing props last");
        }
    }
    std::mem::forget(e); std::mem::forget(v);
}
macro_rules! asm { ($($n:ident: $a:expr, $b:expr;)*) => { $(#[kani::proof] #[kani::unwind(4)]
    #[kani::stub(std::ptr::drop_in_place, no_drop)] #[kani::stub(core::ptr::drop_glue, no_glue)] #[kani::stub(std::vec::Vec::extend_from_slice, extend_from_slice_model)] #[kani::stub(alloc::fmt::format, fmt_marker)]
    fn $n() { assemble::<$a, $b>() })* } }
asm! { asm_none: 0, 0; asm_one_prop: 1, 0; asm_two_props: 2, 0; asm_lone_spread: 3, 0; asm_one_merge: 0, 1; asm_two_merge: 0, 2; asm_merge_and_props: 1, 1; asm_two_merge_and_props: 2, 2; asm_repeated_plain: 4, 0; asm_repeated_class: 5, 0; }

/// strict reading of C13 for the bare `on` attribute (without transformOn): a dynamic `on` prop is a prop like any other
/// and must be covered.  Isolated: the pinned code (like the Babel plugin) never records `on`.
#[kani::proof] #[kani::unwind(3)]
#[kani::stub(std::ptr::drop_in_place, no_drop)] #[kani::stub(core::ptr::drop_glue, no_glue)] #[kani::stub(std::vec::Vec::extend_from_slice, extend_from_slice_model)]
#[kani::stub(crate::util::transform_text, tt_marker)] #[kani::stub(crate::util::is_jsx_attr_value_constant, const_model)] #[kani::stub(alloc::fmt::format, fmt_marker)]
fn step_on_strict() {
    let mut opts = any_options();
    opts.transform_on = false;
    let mut v = visitor(opts);
    unsafe { CONST_ORACLE = false; }
    let a = jsx_attr("on", Some(container(opaque(1))));
    let (mut st, p) = any_state_with::<false>();
    v.x_plain_arm(&mut st, &a, kani::any());
    assert!(dp_has(&st, "on"), "C13: a dynamic `on` prop (transformOn off) is named in the dynamic-prop list like any other prop");
    std::mem::forget(st); std::mem::forget(a); std::mem::forget(v);
}

/// directive arm (parse_directive replaced by its model): C04 html/text props, C05 v-model keys and listener, C13 effect
/// on the analysis state == the lemma's K_DIR_* / K_VMODEL_* steps.
fn step_dir<const PD: u8, const COMP: bool>() {
    let comp: bool = COMP;   // the host kind decides which vectors grow: concrete per harness
    let mut v = visitor(any_options());
    unsafe { PD_KIND = PD; }
    let a = jsx_attr("v-x", Some(container(opaque(1))));
    let (mut st, p) = any_state_with::<false>();
    let mut directives: Vec<directive::NormalDirective> = Vec::new();
    v.x_directive_arm(&mut st, &a, comp, &mut directives);
    assert!(st.has_ref == p.has_ref && st.has_class_binding == p.cls && st.has_style_binding == p.sty && st.has_hydration_event_binding == p.hyd && st.merge_args.is_empty(), "U-step-dir: a directive does not touch ref/class/style/hydration analysis nor the merge arguments");
    // every dynamic-prop name is a prop actually present (C13)
    let mut i = 0; while i < st.dynamic_props.0.len() { assert!(find_prop(&st.props, &st.dynamic_props.0[i]).is_some(), "C13: dynamic-prop list names only props actually present"); i += 1; }
    let props = &st.props;
    match PD {
        0 => assert!(directives.len() == 1 && props.is_empty() && st.dynamic_props.0.is_empty() && st.has_dynamic_keys == p.dynkeys && st.slots.is_none(), "C04: a normal directive yields exactly one runtime binding, no prop, no hint change"),
        1 | 2 => {
            let key = if PD == 1 { "innerHTML" } else { "textContent" };
            assert!(props.len() == 1 && matches!(find_prop(props, key), Some(e) if is_opaque(e, 9)), "C04: v-html / v-text set the innerHTML / textContent prop to the given value");
            assert!(directives.is_empty() && st.has_dynamic_keys == p.dynkeys, "C04: v-html / v-text create no runtime directive binding");
            assert!(dp_has(&st, key) && st.dynamic_props.0.len() == 1, "C13: innerHTML / textContent are recorded as dynamic props");
        }
        3 | 6 => {
            let l = find_prop(props, "onUpdate:modelValue");
            assert!(matches!(l, Some(Expr::Arrow(a)) if arrow_assigns_event_to(a, 9)), "C05: an `onUpdate:modelValue` listener assigns its argument to the bound target");
            assert!(dp_has(&st, "onUpdate:modelValue") && st.has_dynamic_keys == p.dynkeys, "C13: the listener prop is recorded as dynamic prop");
            if comp {
                assert!(matches!(find_prop(props, "modelValue"), Some(e) if is_opaque(e, 9)) && dp_has(&st, "modelValue"), "C05: component v-model passes the value as `modelValue` (recorded as dynamic prop)");
                assert!(directives.is_empty(), "C05: component v-model creates no directive binding");
                if PD == 6 { assert!(find_prop(props, "modelModifiers").is_some(), "C05: modifiers are passed as `modelModifiers`"); }
            } else {
                assert!(directives.len() == 1 && &*directives[0].name == "model" && is_opaque(&directives[0].value, 9), "C05: element v-model attaches the model directive with the bound value");
            }
        }
        5 => {
            assert!(st.has_dynamic_keys, "C13: a computed v-model argument forces FULL_PROPS");
            let mut found = false; let mut i = 0;
            while i < props.len() {
                if let PropOrSpread::Prop(pr) = &props[i] { if let Prop::KeyValue(KeyValueProp { key: PropName::Computed(ck), value }) = &**pr {
                    if let Expr::Bin(BinExpr { op: BinaryOp::Add, left, right, .. }) = &*ck.expr {
                        if matches!(&**value, Expr::Arrow(..)) { found = true; assert!(is_strlit(left, "onUpdate:") && is_opaque(right, 8), "C05: the computed listener key is `onUpdate:` + <argument>"); }
                    }
                } }
                i += 1;
            }
            assert!(found, "C05: a listener prop with a computed key is generated for a computed argument");
        }
        7 => assert!(matches!(&st.slots, Some(e) if is_opaque(e, 7)) && props.is_empty() && directives.is_empty(), "C03: v-slots yields the slots expression and no prop"),
        _ => assert!(st.slots.is_none() && props.is_empty() && directives.is_empty(), "C03: v-slots without a usable value yields nothing"),
    }
    std::mem::forget(st); std::mem::forget(a); std::mem::forget(directives); std::mem::forget(v);
}
fn arrow_assigns_event_to(a: &ArrowExpr, target: u32) -> bool {
    let p_ok = a.params.len() == 1 && matches!(&a.params[0], Pat::Ident(b) if &*b.id.sym == "$event");
    let b_ok = match &*a.body { BlockStmtOrExpr::Expr(e) => match &**e {
        Expr::Assign(AssignExpr { left: AssignTarget::Simple(SimpleAssignTarget::Paren(p)), right, .. }) => is_opaque(&p.expr, target) && matches!(&**right, Expr::Ident(i) if &*i.sym == "$event"),
        _ => false }, _ => false };
    p_ok && b_ok
}
macro_rules! std_h { ($($n:ident: $k:expr, $c:expr;)*) => { $(#[kani::proof] #[kani::unwind(3)]
    #[kani::stub(std::ptr::drop_in_place, no_drop)] #[kani::stub(core::ptr::drop_glue, no_glue)] #[kani::stub(std::vec::Vec::extend_from_slice, extend_from_slice_model)]
    #[kani::stub(crate::directive::parse_directive, pd_model)] #[kani::stub(alloc::fmt::format, fmt_marker)]
    fn $n() { step_dir::<$k, $c>() })* } }
std_h! { step_dir_normal: 0, false; step_dir_normal_comp: 0, true; step_dir_html: 1, false; step_dir_text: 2, false; step_dir_html_comp: 1, true;
         step_vmodel_plain: 3, false; step_vmodel_plain_comp: 3, true; step_vmodel_computed: 5, true; step_vmodel_computed_elem: 5, false; step_vmodel_nullarg: 6, false; step_vmodel_nullarg_comp: 6, true;
         step_slots_some: 7, true; step_slots_none: 8, true; }

/// spread arm, hint effect only (cheap variant of U-step-spread for the quick tier): EVERY spread forces has_dynamic_keys,
/// whatever the options and whatever the spread argument is (C13: spread props always carry FULL_PROPS).
fn step_spread_flag<const OBJ: bool>() {
    let mut v = visitor(any_options());
    let kv = PropOrSpread::Prop(Box::new(Prop::KeyValue(KeyValueProp { key: PropName::Ident(idn("k")), value: opaque(3) })));
    let s = SpreadElement { dot3_token: sp(6), expr: if OBJ { Box::new(Expr::Object(ObjectLit { span: sp(3), props: vec![kv] })) } else { opaque(2) } };
    let mut st = AttrState::initial();
    st.has_dynamic_keys = false;
    v.x_spread_arm(&mut st, &s);
    assert!(st.has_dynamic_keys, "C13: a spread forces has_dynamic_keys (FULL_PROPS)");
    std::mem::forget(st); std::mem::forget(s); std::mem::forget(v);
}
macro_rules! stf { ($($n:ident: $k:expr;)*) => { $(#[kani::proof] #[kani::unwind(4)]
    #[kani::stub(std::ptr::drop_in_place, no_drop)] #[kani::stub(core::ptr::drop_glue, no_glue)] #[kani::stub(std::vec::Vec::extend_from_slice, extend_from_slice_model)] #[kani::stub(alloc::fmt::format, fmt_marker)]
    #[kani::stub(crate::util::dedupe_props, dedupe_identity)]
    fn $n() { step_spread_flag::<$k>() })* } }
stf! { step_spread_flag_expr: false; step_spread_flag_object: true; }

// a caller verified against the CONTRACTS of is_on (not its body): the plain arm for a listener name
#[kani::proof] #[kani::unwind(3)]
#[kani::stub(std::ptr::drop_in_place, no_drop)] #[kani::stub(core::ptr::drop_glue, no_glue)] #[kani::stub(std::vec::Vec::extend_from_slice, extend_from_slice_model)]
#[kani::stub(crate::util::transform_text, tt_marker)] #[kani::stub(crate::util::is_jsx_attr_value_constant, const_model)] #[kani::stub(alloc::fmt::format, fmt_marker)]
#[kani::stub_verified(crate::util::is_on)]
fn step_listener_modular() { step_plain::<8, 0, false, false>() }

/// C12 (2-safety, unit level): the props a plain attribute / a spread contributes do not depend on `optimize`; only the
/// hint analysis (which is consumed under optimize alone, U-emit-hints) may.
fn optimize_frame_plain<const NCLS: i64>() {
    let name = ncls_name(NCLS, false);
    let comp: bool = kani::any();
    let base = any_options();
    let mut o1 = base.clone(); o1.optimize = true;
    let mut o2 = base; o2.optimize = false;
    let mut v1 = visitor(o1);
    let mut v2 = visitor(o2);
    let c: bool = kani::any();
    unsafe { CONST_ORACLE = c; }
    let a = jsx_attr(name, Some(container(opaque(1))));
    let mut s1 = AttrState::initial();
    let mut s2 = AttrState::initial();
    v1.x_plain_arm(&mut s1, &a, comp);
    v2.x_plain_arm(&mut s2, &a, comp);
    assert!(s1.props.len() == s2.props.len() && s1.merge_args.len() == s2.merge_args.len(), "C12: optimize does not change which props / merge arguments an attribute contributes");
    if s1.props.len() == 1 { assert!(prop_key_str(&s1.props[0]) == prop_key_str(&s2.props[0]) && matches!((prop_value(&s1.props[0]), prop_value(&s2.props[0])), (Some(x), Some(y)) if is_opaque(x, 1) && is_opaque(y, 1)), "C12: same prop key and value with optimize on and off"); }
    std::mem::forget(s1); std::mem::forget(s2); std::mem::forget(a); std::mem::forget(v1); std::mem::forget(v2);
}
macro_rules! of_h { ($($n:ident: $k:expr;)*) => { $(#[kani::proof] #[kani::unwind(3)]
    #[kani::stub(std::ptr::drop_in_place, no_drop)] #[kani::stub(core::ptr::drop_glue, no_glue)] #[kani::stub(std::vec::Vec::extend_from_slice, extend_from_slice_model)]
    #[kani::stub(crate::util::transform_text, tt_marker)] #[kani::stub(crate::util::is_jsx_attr_value_constant, const_model)] #[kani::stub(alloc::fmt::format, fmt_marker)]
    fn $n() { optimize_frame_plain::<$k>() })* } }
of_h! { optframe_class: 1; optframe_on: 4; optframe_listener: 8; optframe_other: 9; }
