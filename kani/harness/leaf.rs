//! Leaf units: functions over borrowed data, tables and constants.
use super::common::*;
use super::specs::*;
use crate::*;

// U-ison (complete): util::is_on == spec over every ASCII string of length <= 4 (the function reads <= 3 bytes).
#[kani::proof]
fn ison_spec() {
    let a = any_ascii_atom::<4>();
    let s: &str = &a;
    let r = util::is_on(s);
    assert!(r == spec_is_on(s.as_bytes()), "U-ison: is_on(s) == starts with `on` followed by a non-lowercase character");
    kani::cover!(r, "is_on true reachable");
    kani::cover!(!r && s.len() >= 3, "is_on false on long name reachable");
}

// U-isdir (complete over names of length <= 3 x {plain, namespaced}): directive::is_directive == spec.
#[kani::proof]
fn isdir_spec_plain() {
    let a = any_ascii_atom::<3>();
    let at = JSXAttr { span: sp(5), name: JSXAttrName::Ident(IdentName { span: DUMMY_SP, sym: a }), value: None };
    let r = directive::is_directive(&at);
    assert!(r == spec_is_directive_name(a.as_bytes()), "U-isdir: is_directive(name) == name starts with `v-` or `v[A-Z]`");
    kani::cover!(r, "directive name reachable");
    kani::cover!(!r && a.len() >= 2, "non-directive name reachable");
}
#[kani::proof]
fn isdir_spec_namespaced() {
    let ns = any_ascii_atom::<3>();
    let nm = any_ascii_atom::<2>();
    let at = JSXAttr { span: sp(5), name: JSXAttrName::JSXNamespacedName(JSXNamespacedName { span: sp(5), ns: IdentName { span: DUMMY_SP, sym: ns }, name: IdentName { span: DUMMY_SP, sym: nm } }), value: None };
    let r = directive::is_directive(&at);
    assert!(r == spec_is_directive_name(ns.as_bytes()), "U-isdir: a namespaced attribute is a directive iff its namespace is `v-x`/`vX`");
    kani::cover!(r, "namespaced directive reachable");
}

// U-const (complete): flag constants and slot flag values equal Vue's.
#[kani::proof]
fn const_patch_flags() {
    use crate::patch_flags::PatchFlags as P;
    assert!(P::TEXT.bits() == 1 && P::CLASS.bits() == 2 && P::STYLE.bits() == 4 && P::PROPS.bits() == 8, "U-const: TEXT/CLASS/STYLE/PROPS = 1/2/4/8");
    assert!(P::FULL_PROPS.bits() == 16 && P::HYDRATE_EVENTS.bits() == 32 && P::STABLE_FRAGMENT.bits() == 64, "U-const: FULL_PROPS/HYDRATE_EVENTS/STABLE_FRAGMENT = 16/32/64");
    assert!(P::KEYED_FRAGMENT.bits() == 128 && P::UNKEYED_FRAGMENT.bits() == 256 && P::NEED_PATCH.bits() == 512 && P::DYNAMIC_SLOTS.bits() == 1024, "U-const: KEYED/UNKEYED/NEED_PATCH/DYNAMIC_SLOTS = 128/256/512/1024");
    assert!(P::empty().bits() == 0 && P::empty().is_empty(), "U-const: empty flags are 0");
    assert!(crate::slot_flag::SlotFlag::Stable as u8 == 1 && crate::slot_flag::SlotFlag::Dynamic as u8 == 2, "U-const: SlotFlag Stable=1 Dynamic=2");
}

// U-defaults (complete): Options::default() is the documented default (C14).
#[kani::proof]
#[kani::stub(std::ptr::drop_in_place, no_drop)]
#[kani::stub(core::ptr::drop_glue, no_glue)] #[kani::stub(std::vec::Vec::extend_from_slice, extend_from_slice_model)] #[kani::stub(alloc::alloc::dealloc, no_dealloc)]
fn options_default() {
    let o = Options::default();
    assert!(!o.transform_on, "U-defaults: transformOn defaults to false");
    assert!(!o.optimize, "U-defaults: optimize defaults to false");
    assert!(!o.resolve_type, "U-defaults: resolveType defaults to false");
    assert!(o.merge_props, "U-defaults: mergeProps defaults to true");
    assert!(o.enable_object_slots, "U-defaults: enableObjectSlots defaults to true");
    assert!(o.pragma.is_none(), "U-defaults: pragma defaults to none");
    assert!(o.custom_element_patterns.is_empty(), "U-defaults: customElementPatterns defaults to empty");
    std::mem::forget(o);
}

// U-isconst (bounded: expression shapes of depth <= 2): is_jsx_attr_value_constant is TRUE only for values that
// cannot differ between renders (string literal, or expression built from literals / `undefined` / arrays / objects of
// such), never for an identifier other than `undefined`, a call, a member or `this`.
fn leaf_expr<const K: u8>() -> Box<Expr> {
    match K {
        0 => opaque(1),
        1 => bx(Expr::Ident(ident("x", local_ctxt()))),
        2 => bx(Expr::Ident(ident("undefined", unresolved_ctxt()))),
        3 => strlit("s"),
        4 => numlit(1.0),
        5 => bx(Expr::Call(CallExpr { span: sp(9), callee: Callee::Expr(opaque(2)), args: Vec::new(), ..Default::default() })),
        _ => bx(Expr::Member(MemberExpr { span: sp(9), obj: opaque(2), prop: MemberProp::Ident(idn("p")) })),
    }
}
fn leaf_is_const(k: u8) -> bool { k == 2 || k == 3 || k == 4 }
fn isconst_shapes<const K: u8, const WRAP: u8>() {
    use_global_inputs();
    let inner = leaf_expr::<K>();
    let e = match WRAP {
        0 => inner,
        1 => garray([el(inner)]),
        2 => garray([el(numlit(2.0)), el(inner)]),
        3 => bx(Expr::Object(ObjectLit { span: sp(3), props: vec![PropOrSpread::Prop(Box::new(Prop::KeyValue(KeyValueProp { key: PropName::Ident(idn("k")), value: inner })))] })),
        4 => garray([Some(ExprOrSpread { spread: Some(sp(6)), expr: inner })]),
        _ => bx(Expr::Object(ObjectLit { span: sp(3), props: vec![PropOrSpread::Spread(SpreadElement { dot3_token: sp(6), expr: inner })] })),
    };
    let v = container(e);
    let r = util::is_jsx_attr_value_constant(&v);
    let expect = leaf_is_const(K) && WRAP <= 3;
    assert!(r == expect, "U-isconst: constant iff built only from literals/undefined through arrays and objects without spreads");
    std::mem::forget(v);
}
macro_rules! isconst { ($($n:ident: $k:expr, $w:expr;)*) => { $(#[kani::proof] #[kani::unwind(3)] #[kani::stub(std::ptr::drop_in_place, no_drop)] #[kani::stub(core::ptr::drop_glue, no_glue)] #[kani::stub(std::vec::Vec::extend_from_slice, extend_from_slice_model)] #[kani::stub(alloc::alloc::dealloc, no_dealloc)] fn $n() { isconst_shapes::<$k, $w>() })* } }
isconst! {
    isconst_k0_w0: 0, 0; isconst_k1_w0: 1, 0; isconst_k2_w0: 2, 0; isconst_k3_w0: 3, 0; isconst_k4_w0: 4, 0; isconst_k5_w0: 5, 0; isconst_k6_w0: 6, 0;
    isconst_k0_w1: 0, 1; isconst_k1_w1: 1, 1; isconst_k3_w1: 3, 1; isconst_k5_w1: 5, 1;
    isconst_k0_w2: 0, 2; isconst_k1_w2: 1, 2; isconst_k4_w2: 4, 2;
    isconst_k0_w3: 0, 3; isconst_k1_w3: 1, 3; isconst_k2_w3: 2, 3; isconst_k6_w3: 6, 3;
    isconst_k3_w4: 3, 4; isconst_k3_w5: 3, 5;
}
#[kani::proof] #[kani::stub(std::ptr::drop_in_place, no_drop)] #[kani::stub(core::ptr::drop_glue, no_glue)] #[kani::stub(std::vec::Vec::extend_from_slice, extend_from_slice_model)] #[kani::stub(alloc::alloc::dealloc, no_dealloc)]
fn isconst_value_kinds() {
    // string literal attribute value: constant; element / fragment / empty container: not constant
    let v = str_value("x");
    assert!(util::is_jsx_attr_value_constant(&v), "U-isconst: a string literal attribute value is constant");
    let v2 = JSXAttrValue::JSXExprContainer(JSXExprContainer { span: sp(4), expr: JSXExpr::JSXEmptyExpr(JSXEmptyExpr { span: sp(4) }) });
    assert!(!util::is_jsx_attr_value_constant(&v2), "U-isconst: an empty container is not constant");
    let v3 = JSXAttrValue::JSXFragment(jsx_fragment());
    assert!(!util::is_jsx_attr_value_constant(&v3), "U-isconst: a fragment value is not constant");
    std::mem::forget((v, v2, v3));
}

// ---- Kani function contracts (the modular route): `ensures` clauses are annotated in place on the build copy of
// util::is_on / directive::is_directive (lib/kani_run.py CONTRACTS); these harnesses discharge them, and callers may then
// use the contract instead of the body via #[kani::stub_verified].
#[kani::proof_for_contract(crate::util::is_on)]
fn contract_is_on() {
    let a = any_ascii_atom::<4>();
    let _ = util::is_on(&a);
}
#[kani::proof_for_contract(crate::directive::is_directive)]
fn contract_is_directive() {
    let a = any_ascii_atom::<3>();
    let at = JSXAttr { span: sp(5), name: JSXAttrName::Ident(IdentName { span: DUMMY_SP, sym: a }), value: None };
    let _ = directive::is_directive(&at);
}
