//! U-dir*: the real directive::parse_directive (and its private helpers parse_modifiers, transform_modifiers,
//! parse_v_html/_text/_model/_slots_directive) on concrete spellings and value forms; the real resolve_directive.
//! Contracts from C04 / C05 / C07 / C08.
use super::common::*;
use crate::*;
use crate::directive::{parse_directive, Directive, NormalDirective, VModelDirective};

fn mods_are(e: &Option<Expr>, keys: &[&str], quoted: bool) -> bool {
    match e {
        None => keys.is_empty(),
        Some(Expr::Object(o)) => {
            if o.props.len() != keys.len() || keys.is_empty() { return false; }
            let mut i = 0;
            while i < keys.len() {
                let ok = match &o.props[i] { PropOrSpread::Prop(p) => match &**p {
                    Prop::KeyValue(KeyValueProp { key: PropName::Ident(k), value }) => !quoted && &*k.sym == keys[i] && matches!(&**value, Expr::Lit(Lit::Bool(Bool { value: true, .. }))),
                    Prop::KeyValue(KeyValueProp { key: PropName::Str(k), value }) => &*k.value == keys[i] && matches!(&**value, Expr::Lit(Lit::Bool(Bool { value: true, .. }))),
                    _ => false }, _ => false };
                if !ok { return false; }
                i += 1;
            }
            true
        }
        _ => false,
    }
}
fn is_void0(e: &Expr) -> bool { matches!(e, Expr::Unary(UnaryExpr { op: UnaryOp::Void, .. })) }

/// Spelling contract (C04): name = written name without `v-`/`v`, first letter lower-cased; `_m` suffixes are
/// modifiers (each true); `v-name:arg` gives the argument; with modifiers and no argument the argument slot is `void 0`
/// so that modifiers land in position 4 of the binding.
fn spelling<const K: u8>() {
    use_global_inputs();
    // (attribute, expected name, expected arg, expected modifiers)
    let (a, name, arg, mods): (JSXAttr, &str, Option<&str>, &[&str]) = match K {
        0 => (jsx_attr("v-foo", Some(container(opaque(1)))), "foo", None, &[]),
        1 => (jsx_attr("vFoo", Some(container(opaque(1)))), "foo", None, &[]),
        2 => (jsx_attr("vMyDir", Some(container(opaque(1)))), "myDir", None, &[]),
        3 => (jsx_attr("v-foo_a", Some(container(opaque(1)))), "foo", None, &["a"]),
        4 => (jsx_attr("v-foo_b_a", Some(container(opaque(1)))), "foo", None, &["a", "b"]),
        5 => (jsx_ns_attr("v-foo", "bar", Some(container(opaque(1)))), "foo", Some("bar"), &[]),
        6 => (jsx_ns_attr("v-foo", "bar_m", Some(container(opaque(1)))), "foo", Some("bar"), &["m"]),
        7 => (jsx_ns_attr("vFoo", "bar", Some(container(opaque(1)))), "foo", Some("bar"), &[]),
        8 => (jsx_attr("v-show", Some(container(opaque(1)))), "show", None, &[]),
        9 => (jsx_attr("v-my-dir", Some(container(opaque(1)))), "my-dir", None, &[]),
        10 => (jsx_attr("v-vis", Some(container(opaque(1)))), "vis", None, &[]),           // the name itself starts with `v`
        11 => (jsx_ns_attr("v-vis", "top", Some(container(opaque(1)))), "vis", Some("top"), &[]),
        12 => (jsx_attr("v-foo_a", Some(container(garray([el(opaque(1))])))), "foo", None, &["a"]),   // suffix modifiers with the [v] form
        13 => (jsx_attr("v-foo_2x", Some(container(opaque(1)))), "foo", None, &["2x"]),                // modifier that is not an identifier name
        14 => (jsx_attr("v-_a", Some(container(opaque(1)))), "", None, &["a"]),                        // empty directive name (parseable: must not panic)
        _ => (jsx_attr("v-\u{e9}l", Some(container(opaque(1)))), "\u{e9}l", None, &[]),                // name starting with a 2-byte character
    };
    let is_component: bool = kani::any();
    let e0 = errors();
    match parse_directive(&a, is_component) {
        Directive::Normal(d) => {
            assert!(&*d.name == name, "C04: runtime directive name is the written name, prefix removed, first letter lower-cased");
            assert!(is_opaque(&d.value, 1), "C04: the binding value is the attribute expression");
            match arg {
                Some(s) => assert!(matches!(&d.argument, Some(e) if is_strlit(e, s)), "C04: `v-name:arg` gives the argument `arg`"),
                None => if mods.is_empty() { assert!(d.argument.is_none(), "C04: no argument when none was written") } else { assert!(matches!(&d.argument, Some(e) if is_void0(e)), "C04: `_mod` suffixes are modifiers, not an argument (argument slot is `void 0`)") },
            }
            assert!(mods_are(&d.modifiers, mods, false), "C04: modifiers are exactly the `_mod` suffixes, each true");
            if K == 13 { assert!(matches!(&d.modifiers, Some(Expr::Object(o)) if matches!(&o.props[0], PropOrSpread::Prop(p) if matches!(&**p, Prop::KeyValue(KeyValueProp { key: PropName::Str(..), .. })))), "C07: a modifier that is not an identifier name is emitted as a quoted key"); }
            std::mem::forget(d);
        }
        _ => assert!(false, "C04: a plain directive yields a normal runtime binding"),
    }
    assert!(errors() == e0, "C04: a well-formed directive reports no error");
    std::mem::forget(a);
}
macro_rules! sp_h { ($($n:ident: $k:expr;)*) => { $(#[kani::proof] #[kani::unwind(7)] #[kani::stub(std::ptr::drop_in_place, no_drop)] #[kani::stub(core::ptr::drop_glue, no_glue)] #[kani::stub(std::vec::Vec::extend_from_slice, extend_from_slice_model)] #[kani::stub(alloc::alloc::dealloc, no_dealloc)] fn $n() { spelling::<$k>() })* } }
sp_h! { dirspell_kebab: 0; dirspell_camel: 1; dirspell_camel_inner_upper: 2; dirspell_one_modifier: 3; dirspell_two_modifiers: 4;
        dirspell_ns_arg: 5; dirspell_ns_arg_modifier: 6; dirspell_camel_ns: 7; dirspell_show: 8; dirspell_kebab_inner: 9;
        dirspell_name_starts_with_v: 10; dirspell_ns_name_starts_with_v: 11; dirspell_suffix_with_array_form: 12;
        dirspell_digit_modifier: 13; dirspell_empty_name: 14; dirspell_multibyte_name: 15; }

/// Value-form contract (C04): [v], [v,arg], [v,[mods]], [v,arg,[mods]]; holes / spreads / empty arrays / missing
/// values must either give a well-formed binding or report an error (C07 placeholder rule).
fn value_form<const F: u8>() {
    use_global_inputs();
    let modlist = || garray([el(strlit("b")), el(strlit("a"))]);
    let value: Option<JSXAttrValue> = match F {
        0 => Some(container(garray([el(opaque(1))]))),
        1 => Some(container(garray([el(opaque(1)), el(opaque(2))]))),
        2 => Some(container(garray([el(opaque(1)), el(modlist())]))),
        3 => Some(container(garray([el(opaque(1)), el(opaque(2)), el(modlist())]))),
        4 => Some(container(garray::<0>([]))),
        5 => Some(container(garray([None, el(opaque(2))]))),
        6 => None,
        7 => Some(str_value("s")),
        _ => Some(container(garray([el(opaque(1)), el(garray([el(strlit("a-b"))]))]))),
    };
    let a = jsx_attr("v-foo", value);
    let is_component: bool = kani::any();
    let e0 = errors();
    match parse_directive(&a, is_component) {
        Directive::Normal(d) => {
            assert!(&*d.name == "foo", "C04: directive name");
            let placeholder = matches!(&d.value, Expr::Ident(i) if i.sym.is_empty());
            match F {
                0 => assert!(is_opaque(&d.value, 1) && d.argument.is_none() && d.modifiers.is_none(), "C04: [v] gives value v, no argument, no modifiers"),
                1 => assert!(is_opaque(&d.value, 1) && matches!(&d.argument, Some(e) if is_opaque(e, 2)) && d.modifiers.is_none(), "C04: [v, arg] gives value v and argument arg"),
                2 => assert!(is_opaque(&d.value, 1) && matches!(&d.argument, Some(e) if is_void0(e)) && mods_are(&d.modifiers, &["a", "b"], false), "C04: [v, [mods]] gives value v, `void 0` argument and the listed modifiers"),
                3 => assert!(is_opaque(&d.value, 1) && matches!(&d.argument, Some(e) if is_opaque(e, 2)) && mods_are(&d.modifiers, &["a", "b"], false), "C04: [v, arg, [mods]] gives value, argument and modifiers"),
                8 => {
                    // modifier text that is not an identifier must be a quoted key (C07)
                    let quoted = match &d.modifiers { Some(Expr::Object(o)) => o.props.len() == 1 && matches!(&o.props[0], PropOrSpread::Prop(p) if matches!(&**p, Prop::KeyValue(KeyValueProp { key: PropName::Str(k), .. }) if &*k.value == "a-b")), _ => false };
                    assert!(quoted, "C07: a modifier that is not an identifier name is emitted as a quoted key");
                }
                _ => assert!(!placeholder || errors() > e0, "C07: the empty-identifier placeholder is produced only together with an error diagnostic"),
            }
            std::mem::forget(d);
        }
        _ => assert!(false, "C04: a plain directive yields a normal runtime binding"),
    }
    std::mem::forget(a);
}
macro_rules! vf_h { ($($n:ident: $k:expr;)*) => { $(#[kani::proof] #[kani::unwind(12)] #[kani::stub(std::ptr::drop_in_place, no_drop)] #[kani::stub(core::ptr::drop_glue, no_glue)] #[kani::stub(std::vec::Vec::extend_from_slice, extend_from_slice_model)] #[kani::stub(alloc::alloc::dealloc, no_dealloc)] fn $n() { value_form::<$k>() })* } }
vf_h! { dirval_v: 0; dirval_v_arg: 1; dirval_v_mods: 2; dirval_v_arg_mods: 3; dirval_empty_array: 4; dirval_hole: 5; dirval_absent: 6; dirval_string: 7; dirval_nonident_modifier: 8; }

/// v-html / v-text (C04 value, C08 totality over every attribute-value kind).
fn html_text<const TEXT: bool, const KIND: u8>() {
    use_global_inputs();
    let value = match KIND {
        0 => None,
        1 => Some(str_value("x")),
        2 => Some(container(opaque(1))),
        3 => Some(container(garray([el(opaque(1))]))),
        4 => Some(JSXAttrValue::JSXExprContainer(JSXExprContainer { span: sp(4), expr: JSXExpr::JSXEmptyExpr(JSXEmptyExpr { span: sp(4) }) })),
        5 => Some(JSXAttrValue::JSXElement(Box::new(empty_jsx_element("b", unresolved_ctxt())))),
        _ => Some(JSXAttrValue::JSXFragment(jsx_fragment())),
    };
    let a = jsx_attr(if TEXT { "v-text" } else { "v-html" }, value);
    let e0 = errors();
    let d = parse_directive(&a, kani::any());
    let e = match &d { Directive::Text(e) if TEXT => e, Directive::Html(e) if !TEXT => e, _ => { assert!(false, "C04: v-html / v-text are recognised"); return; } };
    match KIND {
        0 => assert!(errors() > e0, "C08: a value-less v-html / v-text is reported as an error"),
        1 => assert!(is_strlit(e, "x"), "C04: a string literal value is passed through"),
        2 | 3 => assert!(is_opaque(e, 1), "C04: the value is the expression or the first element of the array form"),
        _ => {}
    }
    std::mem::forget(d); std::mem::forget(a);
}
macro_rules! ht_h { ($($n:ident: $t:expr, $k:expr;)*) => { $(#[kani::proof] #[kani::unwind(8)] #[kani::stub(std::ptr::drop_in_place, no_drop)] #[kani::stub(core::ptr::drop_glue, no_glue)] #[kani::stub(std::vec::Vec::extend_from_slice, extend_from_slice_model)] #[kani::stub(alloc::alloc::dealloc, no_dealloc)] fn $n() { html_text::<$t, $k>() })* } }
ht_h! { vhtml_absent: false, 0; vhtml_str: false, 1; vhtml_expr: false, 2; vhtml_array: false, 3; vhtml_empty: false, 4; vhtml_element: false, 5; vhtml_fragment: false, 6;
        vtext_absent: true, 0; vtext_str: true, 1; vtext_expr: true, 2; vtext_array: true, 3; vtext_empty: true, 4; vtext_element: true, 5; vtext_fragment: true, 6; }

/// v-model parsing (C05): argument / modifiers forms, plain and namespaced, element and component.
fn vmodel<const F: u8>() {
    use_global_inputs();
    let modlist = || garray([el(strlit("trim"))]);
    let (a, arg, mods): (JSXAttr, u8, &[&str]) = match F { // arg: 0 none, 1 "foo", 2 opaque(2)
        0 => (jsx_attr("v-model", Some(container(opaque(1)))), 0, &[]),
        1 => (jsx_attr("v-model_trim", Some(container(opaque(1)))), 0, &["trim"]),
        2 => (jsx_ns_attr("v-model", "foo", Some(container(opaque(1)))), 1, &[]),
        3 => (jsx_ns_attr("v-model", "foo_trim", Some(container(opaque(1)))), 1, &["trim"]),
        4 => (jsx_attr("v-model", Some(container(garray([el(opaque(1)), el(strlit("foo"))])))), 1, &[]),
        5 => (jsx_attr("v-model", Some(container(garray([el(opaque(1)), el(opaque(2))])))), 2, &[]),
        6 => (jsx_attr("v-model", Some(container(garray([el(opaque(1)), el(modlist())])))), 0, &["trim"]),
        7 => (jsx_attr("v-model", Some(container(garray([el(opaque(1)), el(strlit("foo")), el(modlist())])))), 1, &["trim"]),
        8 => (jsx_attr("vModel", Some(container(opaque(1)))), 0, &[]),
        9 => (jsx_ns_attr("v-model", "foo", Some(container(garray([el(opaque(1))])))), 1, &[]),          // what v-models decouples `[b, "foo"]` into
        _ => (jsx_ns_attr("v-model", "foo_trim", Some(container(garray([el(opaque(1))])))), 1, &["trim"]),
    };
    let is_component: bool = kani::any();
    match parse_directive(&a, is_component) {
        Directive::VModel(d) => {
            assert!(is_opaque(&d.value, 1), "C05: the bound value is the attribute expression / first array element");
            match arg {
                0 => assert!(matches!(&d.argument, None | Some(Expr::Lit(Lit::Null(..)))), "C05: no argument means the default `modelValue`"),
                1 => assert!(matches!(&d.argument, Some(e) if is_strlit(e, "foo")), "C05: `:arg` / string second element is the argument name"),
                _ => assert!(matches!(&d.argument, Some(e) if is_opaque(e, 2)), "C05: a computed second element is the argument"),
            }
            assert!(mods_are(&d.modifiers, mods, is_component), "C05: modifiers are the `_m` suffixes / listed strings, each true");
            if !is_component && !mods.is_empty() && arg == 0 { assert!(matches!(&d.transformed_argument, Some(e) if is_void0(e)), "C05: on an element, modifiers without argument keep position 4 (`void 0` argument)"); }
            std::mem::forget(d);
        }
        _ => assert!(false, "C05: v-model is recognised under both spellings"),
    }
    std::mem::forget(a);
}
macro_rules! vm_h { ($($n:ident: $k:expr;)*) => { $(#[kani::proof] #[kani::unwind(12)] #[kani::stub(std::ptr::drop_in_place, no_drop)] #[kani::stub(core::ptr::drop_glue, no_glue)] #[kani::stub(std::vec::Vec::extend_from_slice, extend_from_slice_model)] #[kani::stub(alloc::alloc::dealloc, no_dealloc)] fn $n() { vmodel::<$k>() })* } }
vm_h! { vmodel_plain: 0; vmodel_suffix_modifier: 1; vmodel_ns_arg: 2; vmodel_ns_arg_modifier: 3; vmodel_array_strarg: 4; vmodel_array_computed: 5; vmodel_array_mods: 6; vmodel_array_arg_mods: 7; vmodel_camel: 8; vmodel_ns_arg_array_form: 9; vmodel_ns_arg_modifier_array_form: 10; }

/// resolve_directive (C04 vShow / resolveDirective(name); C05 model directive by host and `type`).
fn resolve<const NAME: u8, const HOST: u8, const TYPE: u8>() {
    let dname = match NAME { 0 => "show", 1 => "model", _ => "foo" };
    let host = match HOST { 0 => "input", 1 => "select", 2 => "textarea", _ => "div" };
    let mut el = empty_jsx_element(host, unresolved_ctxt());
    match TYPE {
        0 => {}
        1 => el.opening.attrs.push(attr("type", Some(str_value("checkbox")))),
        2 => el.opening.attrs.push(attr("type", Some(str_value("radio")))),
        3 => el.opening.attrs.push(attr("type", Some(str_value("text")))),
        4 => el.opening.attrs.push(attr("type", Some(container(opaque(3))))),
        _ => { el.opening.attrs.push(attr("id", Some(str_value("checkbox")))); el.opening.attrs.push(attr("type", Some(str_value("radio")))); }
    }
    let mut v = visitor(any_options());
    let e = v.resolve_directive(dname, &el);
    let expected: Option<&str> = match NAME {
        0 => Some("vShow"),
        1 => Some(match HOST { 1 => "vModelSelect", 2 => "vModelText", _ => match TYPE { 1 => "vModelCheckbox", 2 | 5 => "vModelRadio", 4 => "vModelDynamic", _ => "vModelText" } }),
        _ => None,
    };
    match expected {
        Some(item) => {
            assert!(is_import(&v, &e, item), "C04/C05: the directive is the matching Vue runtime directive import");
            assert!(v.vue_imports.len() == 1, "C04/C05: exactly that helper is imported");
        }
        None => {
            let parts = call_parts(&e);
            assert!(matches!(parts, Some((c, args)) if is_import(&v, c, "resolveDirective") && args.len() == 1 && args[0].spread.is_none() && is_strlit(&args[0].expr, "foo")), "C04: any other directive is resolved at runtime under its written name");
        }
    }
    std::mem::forget(e); std::mem::forget(el); std::mem::forget(v);
}
macro_rules! rs_h { ($($n:ident: $a:expr, $b:expr, $c:expr;)*) => { $(#[kani::proof] #[kani::unwind(8)] #[kani::stub(std::ptr::drop_in_place, no_drop)] #[kani::stub(core::ptr::drop_glue, no_glue)] #[kani::stub(std::vec::Vec::extend_from_slice, extend_from_slice_model)] #[kani::stub(alloc::alloc::dealloc, no_dealloc)] #[kani::stub(alloc::fmt::format, fmt_marker)] fn $n() { resolve::<$a, $b, $c>() })* } }
rs_h! { resolve_show: 0, 3, 0; resolve_custom: 2, 3, 0; resolve_model_input_notype: 1, 0, 0; resolve_model_input_checkbox: 1, 0, 1; resolve_model_input_radio: 1, 0, 2;
        resolve_model_input_text: 1, 0, 3; resolve_model_input_dynamic: 1, 0, 4; resolve_model_input_type_after_other: 1, 0, 5; resolve_model_select: 1, 1, 0;
        resolve_model_select_with_type: 1, 1, 1; resolve_model_textarea: 1, 2, 0; resolve_model_other_element: 1, 3, 0; }

