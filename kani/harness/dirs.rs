//! placeholder
