//! Pragma (C15), JSX text emptiness (C02), defineComponent identification and option injection (C20),
//! runtime type table (C17), v-models decoupling (C05/C08), dedupe_props (C01/C11).
use super::common::*;
use super::specs::*;
use crate::*;

// ---------------- C15: pragma precedence and comment rule ----------------
fn pragma_precedence<const COMMENT: bool, const OPTION: bool>() {
    let mut opts = any_options();
    if OPTION { opts.pragma = Some(String::from("opt")); }
    let mut v = visitor(opts);
    if COMMENT { v.pragma = Some(String::from("cmt")); }
    let p = v.get_pragma();
    if COMMENT { assert!(&*p.sym == "cmt" && p.ctxt == SyntaxContext::empty(), "C15: a comment pragma takes precedence and is called as exactly that identifier"); }
    else if OPTION { assert!(&*p.sym == "opt" && p.ctxt == SyntaxContext::empty(), "C15: the pragma option names the factory"); }
    else { assert!(is_import(&v, &Expr::Ident(p.clone()), "createVNode"), "C15: without a pragma the factory is Vue's createVNode import"); }
    assert!(v.vue_imports.get("createVNode").is_some() == (!COMMENT && !OPTION), "C15: createVNode is imported only when no pragma names another factory");
    std::mem::forget(p); std::mem::forget(v);
}
macro_rules! pp_h { ($($n:ident: $a:expr, $b:expr;)*) => { $(#[kani::proof] #[kani::unwind(8)] #[kani::stub(std::ptr::drop_in_place, no_drop)] #[kani::stub(core::ptr::drop_glue, no_glue)] #[kani::stub(std::vec::Vec::extend_from_slice, extend_from_slice_model)] #[kani::stub(alloc::fmt::format, fmt_marker)] fn $n() { pragma_precedence::<$a, $b>() })* } }
pp_h! { pragma_none: false, false; pragma_option: false, true; pragma_comment: true, false; pragma_comment_over_option: true, true; }

fn pragma_comment_rule<const T: u8>() {
    let text: &str = match T {
        0 => " @jsx h ", 1 => "* @jsx h", 2 => "@jsx custom", 3 => " plain comment ", 4 => "@jsxImportSource vue", 5 => "@jsxFrag F",
        6 => "@jsxRuntime classic", 7 => "@jsx", 8 => "* @jsx  ", 9 => "@jsx h more words", _ => "*\n * @jsx h\n ",
    };
    unsafe { swc_core::common::comments::G_POS = 10; swc_core::common::comments::G_N = 1; swc_core::common::comments::G_TEXT0 = Atom::from(text); }
    let mut v: VC = VueJsxTransformVisitor::new(any_options(), UNRESOLVED, Some(GlobalComments));
    v.search_jsx_pragma(Span { lo: BytePos(10), hi: BytePos(20) });
    let (found, s, e) = spec_pragma(text.as_bytes());
    if found {
        assert!(matches!(&v.pragma, Some(p) if p.as_bytes() == &text.as_bytes()[s..e]), "C15: `@jsx <name>` sets the pragma to exactly that name");
    } else {
        assert!(v.pragma.is_none(), "C15: other comments (including @jsxImportSource/@jsxRuntime/@jsxFrag, or @jsx without a name) have no effect");
    }
    std::mem::forget(v);
}
macro_rules! pc_h { ($($n:ident: $a:expr;)*) => { $(#[kani::proof] #[kani::unwind(24)] #[kani::stub(std::ptr::drop_in_place, no_drop)] #[kani::stub(core::ptr::drop_glue, no_glue)] #[kani::stub(std::vec::Vec::extend_from_slice, extend_from_slice_model)] fn $n() { pragma_comment_rule::<$a>() })* } }
pc_h! { pragmac_plain: 0; pragmac_jsdoc: 1; pragmac_custom: 2; pragmac_unrelated: 3; pragmac_importsource: 4; pragmac_frag: 5; pragmac_runtime: 6;
        pragmac_noname: 7; pragmac_noname_star: 8; pragmac_trailing_words: 9; pragmac_multiline: 10; }

// ---------------- C02: JSX text child is dropped iff it cleans to the empty string ----------------
pub static mut TT_EMPTY: bool = false;
pub fn tt_oracle(_text: &str) -> String { if unsafe { TT_EMPTY } { String::new() } else { String::from("<tt>") } }
#[kani::proof] #[kani::unwind(8)] #[kani::stub(std::ptr::drop_in_place, no_drop)] #[kani::stub(core::ptr::drop_glue, no_glue)] #[kani::stub(std::vec::Vec::extend_from_slice, extend_from_slice_model)] #[kani::stub(alloc::fmt::format, fmt_marker)]
#[kani::stub(crate::util::transform_text, tt_oracle)]
fn jsx_text_empty_iff_dropped() {
    let empty: bool = kani::any();
    unsafe { TT_EMPTY = empty; }
    let mut v = visitor(any_options());
    let t = JSXText { span: sp(1), value: Atom::from(" a "), raw: Atom::from(" a ") };
    let r = v.transform_jsx_text(&t);
    match &r {
        None => assert!(empty, "C02: text that does not clean to the empty string is kept"),
        Some(e) => {
            assert!(!empty, "C02: text that cleans to the empty string contributes nothing");
            let parts = call_parts(e);
            assert!(matches!(parts, Some((c, args)) if is_import(&v, c, "createTextVNode") && args.len() == 1 && is_strlit(&args[0].expr, "<tt>")), "C02: a text run becomes createTextVNode(<cleaned text>)");
        }
    }
    std::mem::forget(r); std::mem::forget(v);
}

// ---------------- C20: only Vue's defineComponent ----------------
fn call_to(callee: Box<Expr>) -> CallExpr { CallExpr { span: sp(9), callee: Callee::Expr(callee), args: Vec::new(), ..Default::default() } }
#[kani::proof] #[kani::unwind(8)] #[kani::stub(std::ptr::drop_in_place, no_drop)] #[kani::stub(core::ptr::drop_glue, no_glue)] #[kani::stub(std::vec::Vec::extend_from_slice, extend_from_slice_model)]
fn define_component_identification() {
    let mut v = visitor(any_options());
    let recorded: bool = kani::any();
    let vue_ctxt = SyntaxContext::empty().apply_mark(Mark(5));
    let other_ctxt = SyntaxContext::empty().apply_mark(Mark(6));
    if recorded { v.define_component = Some(vue_ctxt); }
    let which: u8 = kani::any(); kani::assume(which < 5);
    let call = match which {
        0 => call_to(Box::new(Expr::Ident(ident("defineComponent", vue_ctxt)))),
        1 => call_to(Box::new(Expr::Ident(ident("defineComponent", other_ctxt)))),            // shadowing / local function
        2 => call_to(Box::new(Expr::Ident(ident("defineComp", vue_ctxt)))),                   // other name, same scope
        3 => call_to(Box::new(Expr::Member(MemberExpr { span: sp(9), obj: Box::new(Expr::Ident(ident("Vue", vue_ctxt))), prop: MemberProp::Ident(idn("defineComponent")) }))),
        _ => CallExpr { span: sp(9), callee: Callee::Super(sp(9)), args: Vec::new(), ..Default::default() },
    };
    let r = v.is_define_component_call(&call);
    assert!(r == (recorded && which == 0), "C20: only a call of the identifier `defineComponent` bound by the recorded vue import is augmented");
    kani::cover!(r, "positive identification reachable");
    std::mem::forget(call); std::mem::forget(v);
}
fn import_recording<const K: u8>() {
    let vue_ctxt = SyntaxContext::empty().apply_mark(Mark(5));
    let named = |local: &str, imported: Option<&str>| ImportSpecifier::Named(ImportNamedSpecifier { span: sp(1), local: ident(local, vue_ctxt), imported: imported.map(|s| ModuleExportName::Ident(ident(s, SyntaxContext::empty()))), is_type_only: false });
    let (src, specs, expect): (&str, Vec<ImportSpecifier>, bool) = match K {
        0 => ("vue", vec![named("defineComponent", None)], true),
        1 => ("vue", vec![named("ref", None), named("defineComponent", None)], true),
        2 => ("vue", vec![named("dc", Some("defineComponent"))], false),                         // aliased: local name differs
        3 => ("vue", vec![named("defineComponent", Some("somethingElse"))], false),              // other export renamed to defineComponent
        4 => ("other", vec![named("defineComponent", None)], false),
        5 => ("vue", vec![ImportSpecifier::Namespace(ImportStarAsSpecifier { span: sp(1), local: ident("defineComponent", vue_ctxt) })], false),
        6 => ("vue", vec![ImportSpecifier::Default(ImportDefaultSpecifier { span: sp(1), local: ident("defineComponent", vue_ctxt) })], false),
        _ => ("vue", vec![named("ref", None)], false),
    };
    let mut d = ImportDecl { span: sp(1), specifiers: specs, src: Box::new(Str { span: sp(1), value: Atom::from(src), raw: None }), type_only: false, with: None, phase: Default::default() };
    let mut v = visitor(any_options());
    swc_core::ecma::visit::VisitMut::visit_mut_import_decl(&mut v, &mut d);
    assert!(v.define_component.is_some() == expect, "C20: a context is recorded only for the non-aliased named import `defineComponent` from 'vue'");
    if expect { assert!(v.define_component == Some(vue_ctxt), "C20: the recorded context is that of the import binding"); }
    std::mem::forget(d); std::mem::forget(v);
}
macro_rules! ir_h { ($($n:ident: $a:expr;)*) => { $(#[kani::proof] #[kani::unwind(8)] #[kani::stub(std::ptr::drop_in_place, no_drop)] #[kani::stub(core::ptr::drop_glue, no_glue)] #[kani::stub(std::vec::Vec::extend_from_slice, extend_from_slice_model)] fn $n() { import_recording::<$a>() })* } }
ir_h! { import_vue_named: 0; import_vue_named_second: 1; import_vue_aliased: 2; import_vue_renamed_other: 3; import_other_module: 4; import_vue_namespace: 5; import_vue_default: 6; import_vue_without: 7; }

/// inject_define_component_option (C20): user options always win; spread argument lists are left alone.
fn inject<const SHAPE: u8>() {
    let kv = |k: PropName, v: Box<Expr>| PropOrSpread::Prop(Box::new(Prop::KeyValue(KeyValueProp { key: k, value: v })));
    let obj = |props: Vec<PropOrSpread>| Box::new(Expr::Object(ObjectLit { span: sp(3), props }));
    let arg = |e: Box<Expr>| ExprOrSpread { spread: None, expr: e };
    let mut call = call_to(Box::new(Expr::Ident(ident("defineComponent", local_ctxt()))));
    call.args.push(arg(opaque(1)));
    match SHAPE {
        0 => {}
        1 => call.args.push(arg(obj(vec![kv(PropName::Ident(idn("other")), opaque(2))]))),
        2 => call.args.push(arg(obj(vec![kv(PropName::Ident(idn("props")), opaque(2))]))),
        3 => call.args.push(arg(obj(vec![kv(PropName::Str(Str { span: sp(1), value: Atom::from("props"), raw: None }), opaque(2))]))),
        4 => call.args.push(arg(opaque(3))),
        5 => call.args.push(ExprOrSpread { spread: Some(sp(6)), expr: opaque(3) }),
        6 => call.args.push(arg(obj(vec![PropOrSpread::Spread(SpreadElement { dot3_token: sp(6), expr: opaque(4) })]))),
        _ => call.args.push(arg(obj(vec![PropOrSpread::Prop(Box::new(Prop::Shorthand(ident("props", local_ctxt()))))]))),
    }
    inject_define_component_option(&mut call, "props", *opaque(5));
    assert!(is_opaque(&call.args[0].expr, 1), "C20: the setup argument is untouched");
    let injected_in = |props: &Vec<PropOrSpread>| -> Option<usize> { let mut i = 0; while i < props.len() { if matches!(prop_value(&props[i]), Some(e) if is_opaque(e, 5)) { return Some(i); } i += 1; } None };
    match SHAPE {
        0 => assert!(call.args.len() == 2 && matches!(&*call.args[1].expr, Expr::Object(o) if o.props.len() == 1 && prop_key_str(&o.props[0]) == Some("props") && injected_in(&o.props) == Some(0)), "C20: without an options argument one is added carrying the option"),
        1 => assert!(matches!(&*call.args[1].expr, Expr::Object(o) if o.props.len() == 2 && prop_key_str(&o.props[0]) == Some("other") && injected_in(&o.props) == Some(1)), "C20: the option is added beside the user's other options"),
        2 | 3 | 7 => assert!(matches!(&*call.args[1].expr, Expr::Object(o) if injected_in(&o.props).is_none() && o.props.len() == 1), "C20: an explicit option of the same name written by the user always wins (nothing is injected)"),
        4 => assert!(matches!(&*call.args[1].expr, Expr::Object(o) if o.props.len() == 2 && injected_in(&o.props) == Some(0) && matches!(&o.props[1], PropOrSpread::Spread(s) if is_opaque(&s.expr, 3))), "C20: a non-literal options expression is spread AFTER the injected option so that it wins"),
        5 => assert!(call.args.len() == 2 && call.args[1].spread.is_some() && is_opaque(&call.args[1].expr, 3), "C20: a spread argument list is left alone"),
        _ => {
            // literal containing a spread: whatever the spread supplies must win => injected option must come BEFORE the spread
            assert!(matches!(&*call.args[1].expr, Expr::Object(o) if match injected_in(&o.props) { None => true, Some(i) => { let mut ok = true; let mut j = 0; while j < o.props.len() { if matches!(&o.props[j], PropOrSpread::Spread(..)) && j < i { ok = false; } j += 1; } ok } }), "C20: an option supplied through a spread inside the options literal wins over the injected one");
        }
    }
    std::mem::forget(call);
}
macro_rules! ij_h { ($($n:ident: $a:expr;)*) => { $(#[kani::proof] #[kani::unwind(4)] #[kani::stub(std::ptr::drop_in_place, no_drop)] #[kani::stub(core::ptr::drop_glue, no_glue)] #[kani::stub(std::vec::Vec::extend_from_slice, extend_from_slice_model)] fn $n() { inject::<$a>() })* } }
ij_h! { inject_no_options: 0; inject_other_key: 1; inject_same_ident_key: 2; inject_same_string_key: 3; inject_nonliteral_options: 4; inject_spread_args: 5; inject_literal_with_spread: 6; inject_shorthand_key: 7; }

