//! Spec functions: pure, loop-simple restatements of what the PROPERTY STATEMENTS (properties.jsonl) require.
//! Real functions are proved equal to / refined by these in their own harnesses; callers are then verified
//! against the spec (kani::stub) instead of the callee's body.
use super::common::*;

/// Vue's `isOn`: starts with "on" and the third character is not a lower-case ASCII letter.
pub fn spec_is_on(b: &[u8]) -> bool { b.len() >= 3 && b[0] == b'o' && b[1] == b'n' && !(b[2] >= b'a' && b[2] <= b'z') }

/// C04: a directive attribute is `v-name` or `vName` (v followed by '-' or an upper-case ASCII letter).
pub fn spec_is_directive_name(b: &[u8]) -> bool { b.len() >= 2 && b[0] == b'v' && (b[1] == b'-' || (b[1] >= b'A' && b[1] <= b'Z')) }

/// contract form of `directive::is_directive` (used in its Kani `ensures`)
pub fn spec_is_directive_attr(a: &JSXAttr) -> bool {
    match &a.name { JSXAttrName::Ident(i) => spec_is_directive_name(i.sym.as_bytes()), JSXAttrName::JSXNamespacedName(n) => spec_is_directive_name(n.ns.sym.as_bytes()) }
}

/// C04: runtime directive name = written name, `v-`/`v` prefix removed, FIRST letter lower-cased.
/// `written` is the part of the attribute name before the first '_' (plain form) or the namespace (v-x:arg form).
pub fn spec_directive_name(written: &[u8], out: &mut [u8; 31]) -> usize {
    let mut i = 0;
    if i < written.len() && written[i] == b'v' { i += 1; }
    if i < written.len() && written[i] == b'-' { i += 1; }
    let mut n = 0;
    while i < written.len() {
        let c = written[i];
        out[n] = if n == 0 && c >= b'A' && c <= b'Z' { c + 32 } else { c };
        n += 1; i += 1;
    }
    n
}

/// C02: the JSX text rule.  Lines split on \r\n | \n | \r; tabs count as spaces; whitespace (space/tab) adjacent to a
/// line break is removed; lines that become empty are dropped; remaining lines are joined by one space; everything
/// else (leading spaces of the first line, trailing spaces of the last line, NBSP, ...) is preserved.
pub fn spec_transform_text(text: &[u8], out: &mut [u8; 16]) -> usize {
    // pass 1: line boundaries
    let n = text.len();
    let mut o = 0usize;
    let mut line_start = 0usize;
    let mut first_line = true;
    let mut wrote_any = false;
    let mut i = 0usize;
    loop {
        // find end of current line
        let mut j = line_start;
        while j < n && text[j] != b'\n' && text[j] != b'\r' { j += 1; }
        let is_last = j >= n;
        // trim
        let mut a = line_start;
        let mut b = j;
        if !first_line { while a < b && (text[a] == b' ' || text[a] == b'\t') { a += 1; } }
        if !is_last { while b > a && (text[b - 1] == b' ' || text[b - 1] == b'\t') { b -= 1; } }
        if a < b {
            if wrote_any { out[o] = b' '; o += 1; }
            let mut k = a;
            while k < b { out[o] = if text[k] == b'\t' { b' ' } else { text[k] }; o += 1; k += 1; }
            wrote_any = true;
        }
        if is_last { break; }
        // consume the line break (\r\n counts once)
        if text[j] == b'\r' && j + 1 < n && text[j + 1] == b'\n' { line_start = j + 2; } else { line_start = j + 1; }
        first_line = false;
    }
    o
}

/// C15: a comment names a pragma iff, after trimming and an optional leading '*', it is `@jsx` followed by white
/// space and a name; the pragma is exactly that name (one identifier-like word).  Returns (found, start, end).
pub fn spec_pragma(c: &[u8]) -> (bool, usize, usize) {
    let ws = |b: u8| b == b' ' || b == b'\t' || b == b'\n' || b == b'\r';
    let n = c.len();
    let mut i = 0;
    while i < n && ws(c[i]) { i += 1; }
    if i < n && c[i] == b'*' { i += 1; }
    while i < n && ws(c[i]) { i += 1; }
    if !(i + 4 <= n && c[i] == b'@' && c[i + 1] == b'j' && c[i + 2] == b's' && c[i + 3] == b'x') { return (false, 0, 0); }
    i += 4;
    if !(i < n && ws(c[i])) { return (false, 0, 0); }
    while i < n && ws(c[i]) { i += 1; }
    let s = i;
    while i < n && !ws(c[i]) { i += 1; }
    if s == i { return (false, 0, 0); }
    (true, s, i)
}

// ---------------- C13: abstract patch-flag semantics ----------------
pub const F_CLASS: i16 = 2; pub const F_STYLE: i16 = 4; pub const F_PROPS: i16 = 8; pub const F_FULL: i16 = 16;
pub const F_HYDRATE: i16 = 32; pub const F_NEED_PATCH: i16 = 512;
