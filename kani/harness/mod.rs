//! Kani harness module.  Compiled only under `cfg(kani)`, as a child module of the REAL crate root of
//! swc-vue-jsx-visitor (the build copy of /repo/visitor/src, byte-identical except for the appended
//! `mod verif_harness;` line), so that it can reach the crate's private functions and fields.
//! Each harness states a contract (precondition = how inputs are built, postcondition = assertions) on a real
//! function; callees with loops over strings are replaced by their spec functions via `kani::stub`, and
//! each such spec function is tied to the real callee by that callee's own harness (DESIGN.md section 3).
#![allow(dead_code, unused_imports, unused_variables, unused_mut)]
pub(crate) mod common;
pub(crate) mod specs;
pub(crate) mod specs_shared; // generated: tools/gen_spec.py (shared contract text, also the Verus lemma's hypotheses)
pub(crate) mod extracted;    // generated: tools/extract.py (verbatim arm bodies of transform_attrs)
mod steps;
mod leaf;
mod tag;
mod fragname;
mod attrs;
mod dirs;
mod misc;
mod children;
mod more;
mod element;
mod canary;
