//! Regions of transform_jsx_element (extracted verbatim): hint emission (C12/C13) and withDirectives wrapping (C04);
//! the real transform_jsx_fragment (C02/C15).
use super::common::*;
use crate::*;
use crate::patch_flags::PatchFlags;

/// C13/C12: hint arguments are appended only under optimize; the flag literal is the flag word; the dynamic-prop array
/// lists exactly the recorded names, each once, in order.
fn emit_hints<const DP: u8>() {
    let opts = any_options();
    let optimize = opts.optimize;
    let mut v = visitor(opts);
    let bits: i16 = kani::any();
    kani::assume(bits >= 0 && bits < 2048);
    let flags = PatchFlags::from_bits_retain(bits);
    let mut dp: indexmap::IndexSet<Cow<'static, str>> = indexmap::IndexSet::new();
    if DP >= 1 { dp.insert(Cow::from("aa")); }
    if DP >= 2 { dp.insert(Cow::from("bb")); }
    let dyn_props = if DP == 3 { None } else { Some(dp) };
    let n_dp = if DP == 3 { 0 } else { DP as usize };
    let mut args: Vec<ExprOrSpread> = vec![ExprOrSpread { spread: None, expr: opaque(1) }, ExprOrSpread { spread: None, expr: opaque(2) }, ExprOrSpread { spread: None, expr: opaque(3) }];
    v.x_emit_hints(&mut args, flags, dyn_props);
    assert!(is_opaque(&args[0].expr, 1) && is_opaque(&args[1].expr, 2) && is_opaque(&args[2].expr, 3), "C12: type, props and children arguments are untouched by the hints");
    if !optimize {
        assert!(args.len() == 3, "C12: without optimize no hint argument is appended");
    } else {
        let has_flag = bits != 0;
        assert!(args.len() == 3 + (has_flag as usize) + ((n_dp > 0) as usize), "C13: the flag argument is emitted iff the flag word is non-zero, the list iff it is non-empty");
        if has_flag { assert!(matches!(&*args[3].expr, Expr::Lit(Lit::Num(n)) if n.value == bits as f64), "C13: the emitted patch flag is the computed flag word (never negative)"); }
        if n_dp > 0 {
            let last = &args[args.len() - 1];
            assert!(matches!(&*last.expr, Expr::Array(a) if a.elems.len() == n_dp && matches!(&a.elems[0], Some(e) if is_strlit(&e.expr, "aa")) && (n_dp < 2 || matches!(&a.elems[1], Some(e) if is_strlit(&e.expr, "bb")))), "C13: the dynamic-prop list names exactly the recorded props, in order");
        }
    }
    kani::cover!(optimize && bits == 0, "optimize with empty flag word reachable");
    std::mem::forget(args); std::mem::forget(v);
}
macro_rules! eh_h { ($($n:ident: $k:expr;)*) => { $(#[kani::proof] #[kani::unwind(4)] #[kani::stub(std::ptr::drop_in_place, no_drop)] #[kani::stub(core::ptr::drop_glue, no_glue)] #[kani::stub(std::vec::Vec::extend_from_slice, extend_from_slice_model)] #[kani::stub(alloc::fmt::format, fmt_marker)] fn $n() { emit_hints::<$k>() })* } }
eh_h! { hints_no_dynamic_props: 0; hints_one_dynamic_prop: 1; hints_two_dynamic_props: 2; hints_list_absent: 3; }

/// C04: every directive yields exactly one runtime binding `[definition, value, arg?, modifiers?]` on the vnode, in order;
/// without directives the vnode call is returned as is.
fn wrap_directives<const N: u8, const SHAPE: u8>() {
    let mut v = visitor(any_options());
    let el = empty_jsx_element("div", unresolved_ctxt());
    let mk = |name: &str, val: u32, arg: bool, mods: bool| directive::NormalDirective { name: Atom::from(name), value: *opaque(val),
        argument: if arg { Some(*opaque(val + 10)) } else { None }, modifiers: if mods { Some(*opaque(val + 20)) } else { None } };
    let dirs: Vec<directive::NormalDirective> = match N { 0 => vec![], 1 => vec![mk("foo", 1, SHAPE & 1 != 0, SHAPE & 2 != 0)], _ => vec![mk("show", 1, false, false), mk("foo", 2, true, true)] };
    let r = v.x_wrap_directives(*opaque(9), dirs, &el);
    if N == 0 { assert!(is_opaque(&r, 9), "C04: without directives the vnode call is returned as is"); }
    else {
        let parts = call_parts(&r);
        let ok = match parts { Some((c, args)) if is_import(&v, c, "withDirectives") && args.len() == 2 && is_opaque(&args[0].expr, 9) => match &*args[1].expr {
            Expr::Array(a) if a.elems.len() == N as usize => {
                let binding = |i: usize| -> Option<&Vec<Option<ExprOrSpread>>> { match &a.elems[i] { Some(e) if e.spread.is_none() => match &*e.expr { Expr::Array(b) => Some(&b.elems), _ => None }, _ => None } };
                if N == 1 {
                    match binding(0) { Some(b) => {
                        let want = 2 + (SHAPE & 1 != 0) as usize + (SHAPE & 2 != 0) as usize;
                        b.len() == want && matches!(&b[1], Some(x) if is_opaque(&x.expr, 1))
                            && matches!(&b[0], Some(x) if matches!(call_parts(&x.expr), Some((c2, a2)) if is_import(&v, c2, "resolveDirective") && a2.len() == 1 && is_strlit(&a2[0].expr, "foo")))
                            && (SHAPE & 1 == 0 || matches!(&b[2], Some(x) if is_opaque(&x.expr, 11)))
                            && (SHAPE & 2 == 0 || matches!(&b[want - 1], Some(x) if is_opaque(&x.expr, 21)))
                    } None => false }
                } else {
                    matches!(binding(0), Some(b) if b.len() == 2 && matches!(&b[0], Some(x) if is_import(&v, &x.expr, "vShow")) && matches!(&b[1], Some(x) if is_opaque(&x.expr, 1)))
                        && matches!(binding(1), Some(b) if b.len() == 4 && matches!(&b[1], Some(x) if is_opaque(&x.expr, 2)) && matches!(&b[2], Some(x) if is_opaque(&x.expr, 12)) && matches!(&b[3], Some(x) if is_opaque(&x.expr, 22)))
                }
            }
            _ => false }, _ => false };
        assert!(ok, "C04: withDirectives(vnode, [[definition, value, arg?, modifiers?], ...]) with one binding per directive, in order");
    }
    std::mem::forget(r); std::mem::forget(el); std::mem::forget(v);
}
macro_rules! wd_h { ($($n:ident: $k:expr, $s:expr;)*) => { $(#[kani::proof] #[kani::unwind(4)] #[kani::stub(std::ptr::drop_in_place, no_drop)] #[kani::stub(core::ptr::drop_glue, no_glue)] #[kani::stub(std::vec::Vec::extend_from_slice, extend_from_slice_model)] #[kani::stub(alloc::fmt::format, fmt_marker)] fn $n() { wrap_directives::<$k, $s>() })* } }
wd_h! { wrapdir_none: 0, 0; wrapdir_value_only: 1, 0; wrapdir_with_arg: 1, 1; wrapdir_with_mods_only: 1, 2; wrapdir_with_arg_and_mods: 1, 3; wrapdir_two: 2, 0; }

/// C02/C15: a fragment is created by the factory (pragma or createVNode) with Vue's Fragment, null props and its children.
#[kani::proof] #[kani::unwind(4)] #[kani::stub(std::ptr::drop_in_place, no_drop)] #[kani::stub(core::ptr::drop_glue, no_glue)] #[kani::stub(std::vec::Vec::extend_from_slice, extend_from_slice_model)] #[kani::stub(alloc::fmt::format, fmt_marker)]
fn fragment_lowering() {
    let mut opts = any_options();
    let with_pragma: bool = kani::any();
    if with_pragma { opts.pragma = Some(String::from("h")); }
    let optimize = opts.optimize;
    let mut v = visitor(opts);
    let f = jsx_fragment();
    let r = v.transform_jsx_fragment(&f);
    let parts = call_parts(&r);
    assert!(matches!(parts, Some((c, args)) if args.len() == 3 && is_import(&v, &args[0].expr, "Fragment") && matches!(&*args[1].expr, Expr::Lit(Lit::Null(..))) && matches!(&*args[2].expr, Expr::Lit(Lit::Null(..)))
        && (if with_pragma { matches!(c, Expr::Ident(i) if &*i.sym == "h") } else { is_import(&v, c, "createVNode") })), "C02/C15: `<></>` is factory(Fragment, null, null)");
    assert!(v.slot_flag_stack.is_empty(), "C13: the slot-flag entry pushed for the fragment is consumed");
    std::mem::forget(r); std::mem::forget(f); std::mem::forget(v);
}
