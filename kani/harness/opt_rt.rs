//! Contract on the private serde visitor of options.rs (C14: an invalid pattern is rejected when the configuration is read).
//! Compiled as a child module of `options` (one `#[cfg(kani)] mod` line appended to the build copy of options.rs).
#![allow(dead_code, unused_imports, unused_variables)]
use super::*;
use crate::verif_harness::common::*;
use serde::de::Visitor as _;

fn regex_visit<const K: u8, const OWNED: bool>() {
    let (pat, valid): (&str, bool) = match K { 0 => ("^x-", true), 1 => ("(", false), 2 => ("foo", true), _ => ("(a", false) };
    let r: Result<Regex, serde::de::value::Error> = if OWNED { RegexVisitor.visit_string(String::from(pat)) } else { RegexVisitor.visit_str(pat) };
    let std_ok = regex::Regex::new(pat).is_ok();
    assert!(std_ok == valid, "stand-in regex model: validity of the pattern as expected");
    assert!(r.is_ok() == std_ok, "C14: a pattern is accepted exactly when it is a valid regex; an invalid one is rejected while the configuration is read");
    if let Ok(re) = &r { if K == 0 { assert!(re.is_match("x-el") && !re.is_match("div"), "C14: an accepted pattern is the pattern that was written"); } }
    std::mem::forget(r);
}
macro_rules! rv_h { ($($n:ident: $k:expr, $o:expr;)*) => { $(#[kani::proof] #[kani::unwind(12)] #[kani::stub(std::ptr::drop_in_place, no_drop)] #[kani::stub(core::ptr::drop_glue, no_glue)] #[kani::stub(std::vec::Vec::extend_from_slice, extend_from_slice_model)] #[kani::stub(alloc::fmt::format, fmt_marker)] fn $n() { regex_visit::<$k, $o>() })* } }
rv_h! { regex_visit_valid_str: 0, false; regex_visit_invalid_str: 1, false; regex_visit_valid_string: 2, true; regex_visit_invalid_string: 3, true; }

// U-deserialize (C14): contract on the real derived `<Options as Deserialize>::deserialize`, driven through serde's own
// MapDeserializer (no JSON text: serde_json's parser is assumed).  Postcondition: every key that is absent from the
// configuration map has its documented default (`{}` == no configuration == Options::default()), a present boolean key
// has the written value and changes no other field, an unknown key is ignored.
fn de_check<const K: u8>() {
    use serde::Deserialize;
    let v: bool = kani::any();
    // K = 0: `{}`; 1..=5: exactly one documented boolean key with a symbolic value; 6: one unknown key
    let key: &'static str = match K { 1 => "transformOn", 2 => "optimize", 3 => "mergeProps", 4 => "enableObjectSlots", 5 => "resolveType", _ => "someUnknownKey" };
    let r: Result<Options, serde::de::value::Error> = if K == 0 {
        let entries: [(&'static str, bool); 0] = [];
        Options::deserialize(serde::de::value::MapDeserializer::new(entries.into_iter()))
    } else {
        let entries: [(&'static str, bool); 1] = [(key, v)];
        Options::deserialize(serde::de::value::MapDeserializer::new(entries.into_iter()))
    };
    assert!(r.is_ok(), "C14: `{}` / a partial configuration / an unknown key is accepted");
    if let Ok(o) = &r {
        assert!(o.transform_on == (if K == 1 { v } else { false }), "C14: absent transformOn == false; a written value is kept; other keys do not affect it");
        assert!(o.optimize == (if K == 2 { v } else { false }), "C14: absent optimize == false; a written value is kept; other keys do not affect it");
        assert!(o.merge_props == (if K == 3 { v } else { true }), "C14: absent mergeProps == true; a written value is kept; other keys do not affect it");
        assert!(o.enable_object_slots == (if K == 4 { v } else { true }), "C14: absent enableObjectSlots == true; a written value is kept; other keys do not affect it");
        assert!(o.resolve_type == (if K == 5 { v } else { false }), "C14: absent resolveType == false; a written value is kept; other keys do not affect it");
        assert!(o.pragma.is_none(), "C14: absent pragma == none");
        assert!(o.custom_element_patterns.is_empty(), "C14: absent customElementPatterns == empty");
    }
    std::mem::forget(r);
}
macro_rules! de_h { ($($n:ident: $k:expr;)*) => { $(#[kani::proof] #[kani::unwind(20)] #[kani::stub(std::ptr::drop_in_place, no_drop)] #[kani::stub(core::ptr::drop_glue, no_glue)] #[kani::stub(std::vec::Vec::extend_from_slice, extend_from_slice_model)] #[kani::stub(alloc::fmt::format, fmt_marker)] fn $n() { de_check::<$k>() })* } }
de_h! { de_empty: 0; de_only_transform_on: 1; de_only_optimize: 2; de_only_merge_props: 3; de_only_enable_object_slots: 4; de_only_resolve_type: 5; de_unknown_key: 6; }
