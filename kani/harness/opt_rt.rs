//! Contract on the private serde visitor of options.rs (C14: an invalid pattern is rejected when the configuration is read).
//! Compiled as a child module of `options` (one `#[cfg(kani)] mod` line appended to the build copy of options.rs).
#![allow(dead_code, unused_imports, unused_variables)]
use super::*;
use crate::verif_harness::common::*;
use serde::de::Visitor as _;

fn regex_visit<const K: u8, const OWNED: bool>() {
    let (pat, valid): (&str, bool) = match K { 0 => ("^x-", true), 1 => ("(", false), 2 => ("foo", true), _ => ("(a", false) };
    let r: Result<Regex, serde::de::value::Error> = if OWNED { RegexVisitor.visit_string(String::from(pat)) } else { RegexVisitor.visit_str(pat) };
    let std_ok = regex::Regex::new(pat).is_ok();
    assert!(std_ok == valid, "stand-in regex model: validity of the pattern as expected");
    assert!(r.is_ok() == std_ok, "C14: a pattern is accepted exactly when it is a valid regex; an invalid one is rejected while the configuration is read");
    if let Ok(re) = &r { if K == 0 { assert!(re.is_match("x-el") && !re.is_match("div"), "C14: an accepted pattern is the pattern that was written"); } }
    std::mem::forget(r);
}
macro_rules! rv_h { ($($n:ident: $k:expr, $o:expr;)*) => { $(#[kani::proof] #[kani::unwind(12)] #[kani::stub(std::ptr::drop_in_place, no_drop)] #[kani::stub(core::ptr::drop_glue, no_glue)] #[kani::stub(std::vec::Vec::extend_from_slice, extend_from_slice_model)] #[kani::stub(alloc::fmt::format, fmt_marker)] fn $n() { regex_visit::<$k, $o>() })* } }
rv_h! { regex_visit_valid_str: 0, false; regex_visit_invalid_str: 1, false; regex_visit_valid_string: 2, true; regex_visit_invalid_string: 3, true; }
