//! U-fragname: the private free function `is_fragment_name` of lib.rs (own file: a refactor that renames or moves the helper
//! loses only this unit, not the whole harness module).
use super::common::*;
use crate::*;

// U-fragname (bounded: names of length <= 11 over the alphabet of `_Fragment12x`): the static Fragment-alias test accepts
// exactly `Fragment`, `_Fragment`, and those followed by digits (C02/C10: independent of any module state by construction).
#[kani::proof] #[kani::unwind(13)]
fn fragment_name_rule() {
    let a = any_atom_over::<11>(b"_Fragment12x");
    let b = a.as_bytes();
    let start = if b.len() > 0 && b[0] == b'_' { 1 } else { 0 };
    let lit = b"Fragment";
    let mut ok = b.len() >= start + 8;
    let mut i = 0;
    while i < 8 { if ok && b[start + i] != lit[i] { ok = false; } i += 1; }
    let mut j = start + 8;
    while j < b.len() { if ok && !(b[j] >= b'0' && b[j] <= b'9') { ok = false; } j += 1; }
    assert!(crate::is_fragment_name(&a) == ok, "U-fragname: Fragment aliases are exactly `_?Fragment<digits>`");
    kani::cover!(ok && start == 1 && b.len() == 10, "`_Fragment1` reachable");
    kani::cover!(!ok && b.len() == 8, "eight-letter non-Fragment reachable");
}
