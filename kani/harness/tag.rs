//! U-tag: transform_tag + is_component on the real functions (C01, C02, C03 host classification, C07, C08, C10).
use super::common::*;
use crate::*;

#[derive(Clone, Copy, PartialEq)]
enum Class { StringTag, FragmentImport, ResolveComponent, LocalBinding }

/// Contract taken from C01/C03: the vnode type is the tag string for HTML/SVG names and custom-element patterns,
/// Vue's Fragment for `Fragment`, runtime resolution for an unbound name, the binding itself otherwise; and the host is
/// a component (children become slots) unless it is a string tag, Fragment or KeepAlive.
fn tag_contract<const NAME: u8, const PATTERN: bool>() {
    let name: &str = match NAME { 0 => "div", 1 => "svg", 2 => "Fragment", 3 => "KeepAlive", 4 => "Foo", 5 => "x-el", 6 => "foo", 7 => "Div", 9 => "clipPath", _ => "a" };
    let is_html_svg = matches!(NAME, 0 | 1 | 8 | 9);
    let mut opts = any_options();
    if PATTERN { opts.custom_element_patterns.push(Regex::new("^x-").unwrap()); }
    let pattern_matches = PATTERN && NAME == 5;
    let mut v = visitor(opts);
    // history independence (an earlier Fragment import must not matter, C10) is the 2-safety unit U-tag-frame; a symbolic
    // history here merges two BTreeMap states and multiplies the SAT instance
    let frag_before = false;
    let unresolved: bool = kani::any();
    let ctxt = if unresolved { unresolved_ctxt() } else { local_ctxt() };
    let el_name = JSXElementName::Ident(ident(name, ctxt));

    let is_comp = v.is_component(&el_name);
    let tag = v.transform_tag(&el_name);

    let expected = if is_html_svg || pattern_matches { Class::StringTag }
        else if NAME == 2 { Class::FragmentImport }
        else if unresolved { Class::ResolveComponent } else { Class::LocalBinding };
    match expected {
        Class::StringTag => assert!(is_strlit(&tag, name), "U-tag: HTML/SVG/custom-element tag becomes the tag string"),
        Class::FragmentImport => {
            let imp = v.vue_imports.get("Fragment");
            assert!(matches!((&tag, imp), (Expr::Ident(t), Some(i)) if t.sym == i.sym && t.ctxt == i.ctxt), "U-tag: `Fragment` becomes Vue's Fragment import");
        }
        Class::ResolveComponent => {
            let args = call_of(&tag, "<fmt>");
            assert!(matches!(args, Some(a) if a.len() == 1 && a[0].spread.is_none() && is_strlit(&a[0].expr, name)), "U-tag: unbound name is resolved at runtime by that name");
            assert!(v.vue_imports.get("resolveComponent").is_some(), "U-tag: resolveComponent is imported when used");
        }
        Class::LocalBinding => assert!(matches!(&tag, Expr::Ident(t) if &*t.sym == name && t.ctxt == ctxt), "U-tag: a bound identifier is used as the vnode type itself"),
    }
    let expect_component = !(expected == Class::StringTag || NAME == 2 || NAME == 3);
    if NAME != 2 {
        assert!(is_comp == expect_component, "U-tag: host is a component unless string tag, Fragment or KeepAlive");
    }
    kani::cover!(unresolved, "unresolved reachable");
    kani::cover!(!unresolved, "bound reachable");
    std::mem::forget((tag, el_name, v));
}
macro_rules! tagh { ($($n:ident: $k:expr, $p:expr;)*) => { $(#[kani::proof] #[kani::unwind(4)] #[kani::stub(std::ptr::drop_in_place, no_drop)] #[kani::stub(core::ptr::drop_glue, no_glue)] #[kani::stub(std::vec::Vec::extend_from_slice, extend_from_slice_model)] #[kani::stub(alloc::fmt::format, fmt_marker)] fn $n() { tag_contract::<$k, $p>() })* } }
tagh! {
    tag_div: 0, false; tag_svg: 1, false; tag_fragment: 2, false; tag_keepalive: 3, false; tag_foo_comp: 4, false;
    tag_xel_nopattern: 5, false; tag_xel_pattern: 5, true; tag_lower_unknown: 6, false; tag_upper_div: 7, false; tag_a: 8, false;
    tag_div_pattern: 0, true; tag_foo_pattern: 4, true; tag_camel_svg: 9, false;
}

// `<Fragment>` written by the user is not a component, whatever was imported before (C02: Fragment children are its
// written children, not slots; C10: independent of earlier code).  Isolated because the pinned code fails it.
#[kani::proof] #[kani::unwind(8)] #[kani::stub(std::ptr::drop_in_place, no_drop)] #[kani::stub(core::ptr::drop_glue, no_glue)] #[kani::stub(std::vec::Vec::extend_from_slice, extend_from_slice_model)] #[kani::stub(alloc::fmt::format, fmt_marker)]
fn tag_fragment_not_component() {
    let mut v = visitor(any_options());
    let frag_before: bool = kani::any();
    if frag_before { let f = v.import_from_vue("Fragment"); std::mem::forget(f); }
    let unresolved: bool = kani::any();
    let el_name = JSXElementName::Ident(ident("Fragment", if unresolved { unresolved_ctxt() } else { local_ctxt() }));
    assert!(!v.is_component(&el_name), "U-tag: `Fragment` is never a component host (its children are not slots)");
    std::mem::forget((el_name, v));
}

// 2-safety (C10): classification of a tag does not depend on whether the Fragment helper was imported earlier.
fn tag_frame<const NAME: u8>() {
    let name: &str = match NAME { 0 => "_Fragment", 1 => "<fmt>", 2 => "Foo", _ => "div" };
    let opts = any_options();
    let mut v1 = visitor(opts.clone());
    let mut v2 = visitor(opts);
    let f = v2.import_from_vue("Fragment"); std::mem::forget(f);
    let unresolved: bool = kani::any();
    let el_name = JSXElementName::Ident(ident(name, if unresolved { unresolved_ctxt() } else { local_ctxt() }));
    assert!(v1.is_component(&el_name) == v2.is_component(&el_name), "U-tag-frame: is_component must not depend on earlier fragments in the module");
    std::mem::forget((el_name, v1, v2));
}
macro_rules! tagf { ($($n:ident: $k:expr;)*) => { $(#[kani::proof] #[kani::unwind(8)] #[kani::stub(std::ptr::drop_in_place, no_drop)] #[kani::stub(core::ptr::drop_glue, no_glue)] #[kani::stub(std::vec::Vec::extend_from_slice, extend_from_slice_model)] #[kani::stub(alloc::fmt::format, fmt_marker)] fn $n() { tag_frame::<$k>() })* } }
tagf! { tagframe_alias_text: 1; tagframe_foo: 2; tagframe_div: 3; }

// member and namespaced tags (C01 member expression; C07 no `ns:name` token leaves the function)
#[kani::proof] #[kani::unwind(8)] #[kani::stub(std::ptr::drop_in_place, no_drop)] #[kani::stub(core::ptr::drop_glue, no_glue)] #[kani::stub(std::vec::Vec::extend_from_slice, extend_from_slice_model)] #[kani::stub(alloc::fmt::format, fmt_marker)]
fn tag_member() {
    let mut v = visitor(any_options());
    let el_name = JSXElementName::JSXMemberExpr(JSXMemberExpr { span: sp(1), obj: JSXObject::Ident(ident("ns", local_ctxt())), prop: idn("Comp") });
    assert!(v.is_component(&el_name), "U-tag: a member-expression tag is a component host");
    let tag = v.transform_tag(&el_name);
    assert!(matches!(&tag, Expr::JSXMember(m) if &*m.prop.sym == "Comp" && matches!(&m.obj, JSXObject::Ident(o) if &*o.sym == "ns")), "U-tag: a member-expression tag denotes that member value");
    std::mem::forget((tag, el_name, v));
}
#[kani::proof] #[kani::unwind(8)] #[kani::stub(std::ptr::drop_in_place, no_drop)] #[kani::stub(core::ptr::drop_glue, no_glue)] #[kani::stub(std::vec::Vec::extend_from_slice, extend_from_slice_model)] #[kani::stub(alloc::fmt::format, fmt_marker)]
fn tag_namespaced_no_jsx_leak() {
    let mut v = visitor(any_options());
    let el_name = JSXElementName::JSXNamespacedName(JSXNamespacedName { span: sp(1), ns: idn("a"), name: idn("b") });
    let e0 = errors();
    let tag = v.transform_tag(&el_name);
    assert!(!matches!(&tag, Expr::JSXNamespacedName(..)) || errors() > e0, "U-tag-nojsx: a namespaced tag must not be emitted as a raw `ns:name` token unless an error is reported (C07)");
    std::mem::forget((tag, el_name, v));
}

// member-expression spellings of Fragment / KeepAlive (`Vue.Fragment`, `Vue.KeepAlive`): not slot hosts (C02)
fn member_builtin<const WHICH: u8>() {
    let v = visitor(any_options());
    let prop = match WHICH { 0 => "Fragment", 1 => "KeepAlive", _ => "_Fragment" };
    let el_name = JSXElementName::JSXMemberExpr(JSXMemberExpr { span: sp(1), obj: JSXObject::Ident(ident("Vue", local_ctxt())), prop: idn(prop) });
    assert!(!v.is_component(&el_name), "U-tag: `X.Fragment` / `X.KeepAlive` are not component hosts (children stay a plain list)");
    std::mem::forget((el_name, v));
}
macro_rules! mb_h { ($($n:ident: $k:expr;)*) => { $(#[kani::proof] #[kani::unwind(8)] #[kani::stub(std::ptr::drop_in_place, no_drop)] #[kani::stub(core::ptr::drop_glue, no_glue)] #[kani::stub(std::vec::Vec::extend_from_slice, extend_from_slice_model)] #[kani::stub(alloc::fmt::format, fmt_marker)] fn $n() { member_builtin::<$k>() })* } }
mb_h! { tag_member_fragment: 0; tag_member_keepalive: 1; tag_member_fragment_alias: 2; }

// C10: the same tag NAME with two different bindings in one module: each occurrence is classified by ITS binding
fn same_name_two_bindings<const FIRST_UNRESOLVED: bool>() {
    let mut v = visitor(any_options());
    let first_unresolved: bool = FIRST_UNRESOLVED;   // concrete order per harness (a symbolic order merges two import-table states)
    let n1 = JSXElementName::Ident(ident("Foo", if first_unresolved { unresolved_ctxt() } else { local_ctxt() }));
    let n2 = JSXElementName::Ident(ident("Foo", if first_unresolved { local_ctxt() } else { unresolved_ctxt() }));
    let t1 = v.transform_tag(&n1);
    let t2 = v.transform_tag(&n2);
    let is_resolve = |v: &V, t: &Expr| matches!(call_parts(t), Some((c, _)) if is_import(v, c, "resolveComponent"));
    assert!(is_resolve(&v, &t1) == first_unresolved && is_resolve(&v, &t2) == !first_unresolved, "U-tag-frame: an earlier tag of the same name with another binding does not change how this one is resolved");
    std::mem::forget((t1, t2, n1, n2, v));
}
macro_rules! tb_h { ($($n:ident: $k:expr;)*) => { $(#[kani::proof] #[kani::unwind(4)] #[kani::stub(std::ptr::drop_in_place, no_drop)] #[kani::stub(core::ptr::drop_glue, no_glue)] #[kani::stub(std::vec::Vec::extend_from_slice, extend_from_slice_model)] #[kani::stub(alloc::fmt::format, fmt_marker)] fn $n() { same_name_two_bindings::<$k>() })* } }
tb_h! { tag_same_name_unresolved_then_bound: true; tag_same_name_bound_then_unresolved: false; }

