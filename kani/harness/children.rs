//! U-children: the real transform_children / wrap_children on child lists of length <= 2 (C02 child-list rules,
//! C13 slot flags, C03 syntactic dispatch on the child's shape).
use super::common::*;
use crate::*;
use crate::slot_flag::SlotFlag;

fn text(s: &str) -> JSXElementChild { JSXElementChild::JSXText(JSXText { span: sp(20), value: Atom::from(s), raw: Atom::from(s) }) }
fn expr_child(e: Box<Expr>) -> JSXElementChild { JSXElementChild::JSXExprContainer(JSXExprContainer { span: sp(21), expr: JSXExpr::Expr(e) }) }
fn empty_child() -> JSXElementChild { JSXElementChild::JSXExprContainer(JSXExprContainer { span: sp(21), expr: JSXExpr::JSXEmptyExpr(JSXEmptyExpr { span: sp(21) }) }) }
fn spread_child(e: Box<Expr>) -> JSXElementChild { JSXElementChild::JSXSpreadChild(JSXSpreadChild { span: sp(22), expr: e }) }
fn bound(name: &str) -> Box<Expr> { bx(Expr::Ident(ident(name, local_ctxt()))) }
fn unbound(name: &str) -> Box<Expr> { bx(Expr::Ident(ident(name, unresolved_ctxt()))) }

fn slot_flag_of(props: &Vec<PropOrSpread>) -> Option<f64> {
    match find_prop(props, "_") { Some(Expr::Lit(Lit::Num(n))) => Some(n.value), _ => None }
}
fn default_slot_elems<'a>(props: &'a Vec<PropOrSpread>) -> Option<&'a Vec<Option<ExprOrSpread>>> {
    match find_prop(props, "default") { Some(Expr::Arrow(a)) if a.params.is_empty() => match &*a.body { BlockStmtOrExpr::Expr(e) => match &**e { Expr::Array(arr) => Some(&arr.elems), _ => None }, _ => None }, _ => None }
}
fn is_text_vnode<C: Comments>(v: &VueJsxTransformVisitor<C>, e: &Expr) -> bool {
    matches!(call_parts(e), Some((c, args)) if is_import(v, c, "createTextVNode") && args.len() == 1 && is_strlit(&args[0].expr, "<tt>"))
}

/// Element-like hosts (element, Fragment, KeepAlive, custom element): children are exactly the written children, in
/// order (C02).  Component hosts with mixed / text / opaque children: a lazily evaluated `default` slot returning them in
/// order, `_` = 1 or 2 under optimize, 2 whenever a direct child is an identifier bound in the file (C03, C13).
fn child_list<const SHAPE: u8>() {
    let opts = any_options();
    let optimize = opts.optimize;
    let mut v = visitor(opts);
    let is_component: bool = kani::any();
    if optimize { v.slot_flag_stack.push(SlotFlag::Stable); }   // pushed by transform_jsx_element before the call
    // children on the stack (two slots, `n` used): concrete for CBMC
    let filler = || empty_child();
    let (children, n, n_expected, has_bound_ident): ([JSXElementChild; 2], usize, usize, bool) = match SHAPE {
        0 => ([filler(), filler()], 0, 0, false),
        1 => ([text("a"), filler()], 1, 1, false),
        2 => ([expr_child(opaque(1)), filler()], 1, 1, false),
        3 => ([empty_child(), filler()], 1, 0, false),
        4 => ([text("a"), expr_child(opaque(1))], 2, 2, false),
        5 => ([expr_child(opaque(1)), empty_child()], 2, 1, false),
        6 => ([text("a"), expr_child(bound("x"))], 2, 2, true),
        7 => ([text("a"), expr_child(unbound("x"))], 2, 2, false),
        8 => ([spread_child(opaque(1)), text("a")], 2, 2, false),
        _ => ([spread_child(bound("xs")), text("a")], 2, 2, true),
    };
    let children = &children[..n];
    let r = v.transform_children(children, is_component, None);
    assert!(v.slot_flag_stack.is_empty(), "C13: the slot-flag entry pushed for this element is consumed");
    let check_elems = |elems: &Vec<Option<ExprOrSpread>>, v: &V| {
        assert!(elems.len() == n_expected, "C02: empty expressions contribute nothing; every other child appears once");
        match SHAPE {
            1 => assert!(matches!(&elems[0], Some(e) if e.spread.is_none() && is_text_vnode(v, &e.expr)), "C02: a text run becomes createTextVNode(cleaned)"),
            2 | 5 => assert!(matches!(&elems[0], Some(e) if e.spread.is_none() && is_opaque(&e.expr, 1)), "C02: an expression child is passed as is"),
            4 | 6 | 7 => assert!(matches!(&elems[0], Some(e) if is_text_vnode(v, &e.expr)) && matches!(&elems[1], Some(e) if e.spread.is_none() && (is_opaque(&e.expr, 1) || matches!(&*e.expr, Expr::Ident(i) if &*i.sym == "x"))), "C02: children keep their source order"),
            8 | 9 => assert!(matches!(&elems[0], Some(e) if e.spread.is_some()) && matches!(&elems[1], Some(e) if is_text_vnode(v, &e.expr)), "C02: a spread child is spliced in place, order kept"),
            _ => {}
        }
    };
    if n_expected == 0 {
        assert!(matches!(&r, Expr::Lit(Lit::Null(..))), "C02: an element with no remaining children gets null");
    } else if !is_component {
        match &r { Expr::Array(a) => check_elems(&a.elems, &v), _ => assert!(false, "C02: an element / Fragment / KeepAlive receives its children as an array") }
    } else {
        match &r {
            Expr::Object(o) => {
                match default_slot_elems(&o.props) { Some(elems) => check_elems(elems, &v), None => assert!(false, "C03: component children become a lazily evaluated `default` slot") }
                let flag = slot_flag_of(&o.props);
                if optimize {
                    assert!(flag == Some(1.0) || flag == Some(2.0), "C13: slot objects carry `_` = 1 or 2");
                    if has_bound_ident { assert!(flag == Some(2.0), "C13: `_` is 2 whenever a direct child is an identifier bound in the file"); }
                } else {
                    assert!(flag.is_none(), "C12/C13: the `_` entry is only emitted under optimize");
                }
            }
            _ => assert!(false, "C03: mixed / text / opaque children of a component become a slots object"),
        }
    }
    kani::cover!(is_component && optimize, "component under optimize reachable");
    kani::cover!(!is_component, "element host reachable");
    std::mem::forget(r); std::mem::forget(v);
}
macro_rules! ch_h { ($($n:ident: $k:expr;)*) => { $(#[kani::proof] #[kani::unwind(4)]
    #[kani::stub(std::ptr::drop_in_place, no_drop)] #[kani::stub(core::ptr::drop_glue, no_glue)] #[kani::stub(std::vec::Vec::extend_from_slice, extend_from_slice_model)]
    #[kani::stub(crate::util::transform_text, tt_marker)] #[kani::stub(alloc::fmt::format, fmt_marker)]
    fn $n() { child_list::<$k>() })* } }
ch_h! { children_none: 0; children_text: 1; children_expr: 2; children_empty_expr: 3; children_text_expr: 4; children_expr_empty: 5;
        children_text_bound_ident: 6; children_text_unbound_ident: 7; children_spread_text: 8; children_bound_spread_text: 9; }

/// nested slot flags (C13): an identifier child of an inner element marks every enclosing slot reached by direct nesting.
#[kani::proof] #[kani::unwind(4)]
#[kani::stub(std::ptr::drop_in_place, no_drop)] #[kani::stub(core::ptr::drop_glue, no_glue)] #[kani::stub(std::vec::Vec::extend_from_slice, extend_from_slice_model)]
#[kani::stub(crate::util::transform_text, tt_marker)] #[kani::stub(alloc::fmt::format, fmt_marker)]
fn slot_flag_stack_fill() {
    let mut opts = any_options();
    opts.optimize = true;
    let mut v = visitor(opts);
    // two enclosing elements are being lowered; the inner one has a bound identifier child
    v.slot_flag_stack.push(SlotFlag::Stable);
    v.slot_flag_stack.push(SlotFlag::Stable);
    let children = [text("a"), expr_child(bound("x"))];
    let r = v.transform_children(&children, true, None);
    assert!(v.slot_flag_stack.len() == 1 && matches!(v.slot_flag_stack[0], SlotFlag::Dynamic), "C13: every enclosing slot reached by direct nesting becomes dynamic (2)");
    assert!(matches!(&r, Expr::Object(o) if slot_flag_of(&o.props) == Some(2.0)), "C13: the slot with the bound identifier child carries `_` = 2");
    std::mem::forget(r); std::mem::forget(children); std::mem::forget(v);
}

/// wrap_children (C03): written children become the lazily evaluated `default` slot; `v-slots` entries are merged beside it
/// (object literal: its entries, in order; any other expression: spread); `_` only under optimize.
fn wrap<const SLOTS: u8>() {
    let opts = any_options();
    let optimize = opts.optimize;
    let v = visitor(opts);
    let elems = vec![el(opaque(1))];
    let kv = PropOrSpread::Prop(Box::new(Prop::KeyValue(KeyValueProp { key: PropName::Ident(idn("foo")), value: opaque(2) })));
    let slots: Option<Box<Expr>> = match SLOTS { 0 => None, 1 => Some(Box::new(Expr::Object(ObjectLit { span: sp(3), props: vec![kv] }))), _ => Some(opaque(3)) };
    let dynamic: bool = kani::any();
    let r = v.wrap_children(elems, if dynamic { SlotFlag::Dynamic } else { SlotFlag::Stable }, slots);
    match &r {
        Expr::Object(o) => {
            assert!(prop_key_str(&o.props[0]) == Some("default") && matches!(default_slot_elems(&o.props), Some(e) if e.len() == 1 && matches!(&e[0], Some(x) if is_opaque(&x.expr, 1))), "C03: children become the `default` slot function returning them");
            let n_extra = match SLOTS { 0 => 0, _ => 1 };
            assert!(o.props.len() == 1 + n_extra + (optimize as usize), "C03: exactly default + v-slots entries (+ `_` under optimize)");
            match SLOTS {
                1 => assert!(matches!(find_prop(&o.props, "foo"), Some(e) if is_opaque(e, 2)), "C03: object-literal v-slots entries are merged beside default"),
                2 => assert!(matches!(&o.props[1], PropOrSpread::Spread(s) if is_opaque(&s.expr, 3)), "C03: a v-slots expression is spread beside default"),
                _ => {}
            }
            let flag = slot_flag_of(&o.props);
            assert!(flag == if optimize { Some(if dynamic { 2.0 } else { 1.0 }) } else { None }, "C13: `_` carries the slot flag (1 or 2), only under optimize");
        }
        _ => assert!(false, "C03: wrap_children yields a slots object"),
    }
    std::mem::forget(r); std::mem::forget(v);
}
macro_rules! wr_h { ($($n:ident: $k:expr;)*) => { $(#[kani::proof] #[kani::unwind(4)] #[kani::stub(std::ptr::drop_in_place, no_drop)] #[kani::stub(core::ptr::drop_glue, no_glue)] #[kani::stub(std::vec::Vec::extend_from_slice, extend_from_slice_model)] #[kani::stub(alloc::fmt::format, fmt_marker)] fn $n() { wrap::<$k>() })* } }
wr_h! { wrap_no_slots: 0; wrap_object_slots: 1; wrap_expr_slots: 2; }
