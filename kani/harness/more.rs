//! dedupe_props (C01 static merging of repeated class/style/listeners, C11 order).
//! (v-models decoupling was tried and is out of reach: visit_mut_jsx_opening_element first runs the traversal, whose
//! recursion over symbolic heap does not finish under CBMC.)
use super::common::*;
use crate::*;

fn kvs(k: &str, n: u32) -> PropOrSpread { PropOrSpread::Prop(Box::new(Prop::KeyValue(KeyValueProp { key: PropName::Str(Str { span: DUMMY_SP, value: Atom::from(k), raw: None }), value: opaque(n) }))) }

/// Contract (C01 / C11): repeated `class` / `style` / `on*` string keys are merged into ONE entry at the position of the
/// first occurrence, whose value is the array of the values in source order; a repeated ordinary key keeps its first
/// occurrence; everything else (other keys, spreads, identifier keys) keeps its place and order.
fn dedupe<const SHAPE: u8>() {
    let props: Vec<PropOrSpread> = match SHAPE {
        0 => vec![kvs("class", 1), kvs("class", 2)],
        1 => vec![kvs("onClick", 1), kvs("id", 3), kvs("onClick", 2)],
        2 => vec![kvs("id", 1), kvs("id", 2)],
        3 => vec![kvs("style", 1), kvs("class", 2)],
        4 => vec![kvs("class", 1), PropOrSpread::Spread(SpreadElement { dot3_token: sp(6), expr: opaque(9) }), kvs("class", 2)],
        _ => vec![kvs("class", 1), kvs("class", 2), kvs("class", 3)],
    };
    let out = util::dedupe_props(props);
    let merged = |e: &Expr, a: u32, b: u32| matches!(e, Expr::Array(arr) if arr.elems.len() >= 2 && matches!(&arr.elems[0], Some(x) if x.spread.is_none() && is_opaque(&x.expr, a)) && matches!(&arr.elems[1], Some(x) if x.spread.is_none() && is_opaque(&x.expr, b)));
    match SHAPE {
        0 => assert!(out.len() == 1 && prop_key_str(&out[0]) == Some("class") && matches!(prop_value(&out[0]), Some(e) if merged(e, 1, 2)), "C01: repeated class values are merged into one array, in source order"),
        1 => assert!(out.len() == 2 && prop_key_str(&out[0]) == Some("onClick") && matches!(prop_value(&out[0]), Some(e) if merged(e, 1, 2)) && prop_key_str(&out[1]) == Some("id"), "C01/C11: repeated listeners merge at the position of the first occurrence; other props keep their order"),
        2 => assert!(out.len() == 1 && matches!(prop_value(&out[0]), Some(e) if is_opaque(e, 1)), "C01: a repeated ordinary attribute is merged statically into one entry"),
        3 => assert!(out.len() == 2 && prop_key_str(&out[0]) == Some("style") && prop_key_str(&out[1]) == Some("class") && matches!(prop_value(&out[0]), Some(e) if is_opaque(e, 1)) && matches!(prop_value(&out[1]), Some(e) if is_opaque(e, 2)), "C01: distinct keys are left alone, in order"),
        4 => assert!(out.len() == 2 && matches!(prop_value(&out[0]), Some(e) if merged(e, 1, 2)) && matches!(&out[1], PropOrSpread::Spread(s) if is_opaque(&s.expr, 9)), "C01: spreads keep their place between merged entries"),
        _ => assert!(out.len() == 1 && matches!(prop_value(&out[0]), Some(Expr::Array(arr)) if arr.elems.len() == 3 && matches!(&arr.elems[2], Some(x) if is_opaque(&x.expr, 3))), "C01: a third repeated value is appended to the merged array"),
    }
    std::mem::forget(out);
}
macro_rules! dd_h { ($($n:ident: $k:expr;)*) => { $(#[kani::proof] #[kani::unwind(5)] #[kani::stub(std::ptr::drop_in_place, no_drop)] #[kani::stub(core::ptr::drop_glue, no_glue)] #[kani::stub(std::vec::Vec::extend_from_slice, extend_from_slice_model)] fn $n() { dedupe::<$k>() })* } }
dd_h! { dedupe_class_twice: 0; dedupe_listener_around_other: 1; dedupe_plain_twice: 2; dedupe_distinct: 3; dedupe_across_spread: 4; dedupe_class_thrice: 5; }

