//! Contracts on the PRIVATE helpers of directive.rs.  Compiled as a child module of `directive` (one `#[cfg(kani)] mod`
//! line appended to the build copy of directive.rs).
#![allow(dead_code, unused_imports, unused_variables)]
use super::*;
use crate::verif_harness::common::*;

fn spec_ident_start(b: u8) -> bool { b == b'$' || b == b'_' || (b >= b'a' && b <= b'z') || (b >= b'A' && b <= b'Z') }
fn spec_ident_continue(b: u8) -> bool { spec_ident_start(b) || (b >= b'0' && b <= b'9') }

// U-identname (complete over ASCII strings of length <= 3): a modifier is printed as an unquoted key only when it is an
// identifier name: non-empty, first character a letter / `_` / `$`, the rest letters / digits / `_` / `$` (C07).
#[kani::proof] #[kani::unwind(5)]
fn dirpriv_is_identifier_name() {
    let a = any_ascii_atom::<3>();
    let b = a.as_bytes();
    let spec = b.len() >= 1 && spec_ident_start(b[0]) && (b.len() < 2 || spec_ident_continue(b[1])) && (b.len() < 3 || spec_ident_continue(b[2]));
    assert!(is_identifier_name(&a) == spec, "C07: is_identifier_name(text) == text is an identifier name (so that anything else is emitted as a quoted key)");
    kani::cover!(spec && b.len() == 3, "three-character identifier reachable");
    kani::cover!(!spec && b.len() >= 1 && b[0] >= b'0' && b[0] <= b'9', "digit-leading text reachable");
}

// U-lowerfirst (complete over ASCII names of length <= 3, plus a 2-byte first letter): only the first letter is lower-cased,
// everything else is kept, and no input panics (C04 name rule, C08 totality).
#[kani::proof] #[kani::unwind(6)] #[kani::stub(std::ptr::drop_in_place, no_drop)] #[kani::stub(core::ptr::drop_glue, no_glue)] #[kani::stub(std::vec::Vec::extend_from_slice, extend_from_slice_model)]
fn dirpriv_lowercase_first_letter() {
    let a = any_ascii_atom::<3>();
    let b = a.as_bytes();
    let r = lowercase_first_letter(&a);
    let rb = r.as_bytes();
    assert!(rb.len() == b.len(), "C04: lower-casing the first letter keeps the length");
    if b.len() >= 1 { assert!(rb[0] == if b[0] >= b'A' && b[0] <= b'Z' { b[0] + 32 } else { b[0] }, "C04: the first letter is lower-cased"); }
    if b.len() >= 2 { assert!(rb[1] == b[1], "C04: only the first letter is lower-cased"); }
    if b.len() >= 3 { assert!(rb[2] == b[2], "C04: only the first letter is lower-cased"); }
    kani::cover!(b.len() == 0, "empty name reachable (must not panic)");
    kani::cover!(b.len() == 3 && b[1] >= b'A' && b[1] <= b'Z', "inner capital reachable");
    std::mem::forget(r);
}
#[kani::proof] #[kani::unwind(8)] #[kani::stub(std::ptr::drop_in_place, no_drop)] #[kani::stub(core::ptr::drop_glue, no_glue)] #[kani::stub(std::vec::Vec::extend_from_slice, extend_from_slice_model)]
fn dirpriv_lowercase_first_letter_multibyte() {
    let r = lowercase_first_letter("\u{e9}L");
    assert!(r.as_bytes() == "\u{e9}L".as_bytes(), "C08: a name starting with a multi-byte character is handled (no panic), rest kept");
    std::mem::forget(r);
}
