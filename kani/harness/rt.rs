//! C17 (and C16/C19 pieces): harnesses on the PRIVATE functions of resolve_type.rs.  This file is compiled as a
//! child module of `resolve_type` (one `#[cfg(kani)] mod` line appended to the build copy of resolve_type.rs).
#![allow(dead_code, unused_imports, unused_variables)]
use super::*;
use crate::verif_harness::common::*;
use swc_core::common::comments::Comments;

// ---------------- C17: runtime type atom table ----------------
fn rt_single<C: Comments>(v: &VueJsxTransformVisitor<C>, ty: &TsType, expect: Option<&str>) -> bool {
    let r = v.infer_runtime_type(ty);
    let ok = r.0.len() == 1 && match (&r.0[0], expect) { (Some(a), Some(e)) => &**a == e, (None, None) => true, _ => false };
    std::mem::forget(r);
    ok
}
fn kw(k: TsKeywordTypeKind) -> TsType { TsType::TsKeywordType(TsKeywordType { span: sp(1), kind: k }) }
#[kani::proof] #[kani::unwind(8)] #[kani::stub(std::ptr::drop_in_place, no_drop)] #[kani::stub(core::ptr::drop_glue, no_glue)] #[kani::stub(std::vec::Vec::extend_from_slice, extend_from_slice_model)]
fn rt_keywords() {
    let v = visitor(any_options());
    use TsKeywordTypeKind::*;
    assert!(rt_single(&v, &kw(TsStringKeyword), Some("String")), "C17: string -> String");
    assert!(rt_single(&v, &kw(TsNumberKeyword), Some("Number")), "C17: number -> Number");
    assert!(rt_single(&v, &kw(TsBooleanKeyword), Some("Boolean")), "C17: boolean -> Boolean");
    assert!(rt_single(&v, &kw(TsObjectKeyword), Some("Object")), "C17: object -> Object");
    assert!(rt_single(&v, &kw(TsBigIntKeyword), Some("BigInt")), "C17: bigint -> BigInt");
    assert!(rt_single(&v, &kw(TsSymbolKeyword), Some("Symbol")), "C17: symbol -> Symbol");
    assert!(rt_single(&v, &kw(TsNullKeyword), None), "C17: null -> the null value");
    assert!(rt_single(&v, &kw(TsAnyKeyword), None), "C17: any -> no check");
    assert!(rt_single(&v, &kw(TsUnknownKeyword), None), "C17: unknown -> no check");
    std::mem::forget(v);
}
fn lit_ty(l: TsLit) -> TsType { TsType::TsLitType(TsLitType { span: sp(1), lit: l }) }
#[kani::proof] #[kani::unwind(8)] #[kani::stub(std::ptr::drop_in_place, no_drop)] #[kani::stub(core::ptr::drop_glue, no_glue)] #[kani::stub(std::vec::Vec::extend_from_slice, extend_from_slice_model)]
fn rt_literals() {
    let v = visitor(any_options());
    assert!(rt_single(&v, &lit_ty(TsLit::Str(Str { span: sp(1), value: Atom::from("a"), raw: None })), Some("String")), "C17: string literal type -> String");
    assert!(rt_single(&v, &lit_ty(TsLit::Tpl(TsTplLitType { span: sp(1), types: Vec::new() })), Some("String")), "C17: template literal type -> String");
    assert!(rt_single(&v, &lit_ty(TsLit::Bool(Bool { span: sp(1), value: true })), Some("Boolean")), "C17: boolean literal type -> Boolean");
    assert!(rt_single(&v, &lit_ty(TsLit::Number(Number { span: sp(1), value: 1.0, raw: None })), Some("Number")), "C17: number literal type -> Number");
    std::mem::forget(v);
}
#[kani::proof] #[kani::unwind(8)] #[kani::stub(std::ptr::drop_in_place, no_drop)] #[kani::stub(core::ptr::drop_glue, no_glue)] #[kani::stub(std::vec::Vec::extend_from_slice, extend_from_slice_model)]
fn rt_bigint_literal() {
    let v = visitor(any_options());
    assert!(rt_single(&v, &lit_ty(TsLit::BigInt(BigInt { span: sp(1), value: Box::new(BigIntValue(1)), raw: None })), Some("BigInt")), "C17: bigint literal type -> BigInt");
    std::mem::forget(v);
}
fn tref(name: &str, params: Vec<Box<TsType>>) -> TsType {
    TsType::TsTypeRef(TsTypeRef { span: sp(1), type_name: TsEntityName::Ident(ident(name, unresolved_ctxt())), type_params: if params.is_empty() { None } else { Some(Box::new(TsTypeParamInstantiation { span: sp(1), params })) } })
}
fn rt_builtin<const K: u8>() {
    let v = visitor(any_options());
    let (name, expect): (&str, &str) = match K {
        0 => ("Date", "Date"), 1 => ("Map", "Map"), 2 => ("Set", "Set"), 3 => ("Promise", "Promise"), 4 => ("RegExp", "RegExp"), 5 => ("Error", "Error"),
        6 => ("Array", "Array"), 7 => ("Function", "Function"), 8 => ("WeakMap", "WeakMap"), 9 => ("WeakSet", "WeakSet"), 10 => ("Object", "Object"),
        11 => ("Uppercase", "String"), 12 => ("Lowercase", "String"), 13 => ("Capitalize", "String"), 14 => ("Uncapitalize", "String"),
        15 => ("Parameters", "Array"), 16 => ("ConstructorParameters", "Array"), 17 => ("Record", "Object"), 18 => ("Partial", "Object"), _ => ("Readonly", "Object"),
    };
    assert!(rt_single(&v, &tref(name, Vec::new()), Some(expect)), "C17: built-in classes map to themselves, string utilities to String, parameter utilities to Array, object utilities to Object");
    std::mem::forget(v);
}
macro_rules! rb_h { ($($n:ident: $a:expr;)*) => { $(#[kani::proof] #[kani::unwind(8)] #[kani::stub(std::ptr::drop_in_place, no_drop)] #[kani::stub(core::ptr::drop_glue, no_glue)] #[kani::stub(std::vec::Vec::extend_from_slice, extend_from_slice_model)] fn $n() { rt_builtin::<$a>() })* } }
rb_h! { rtb_date: 0; rtb_map: 1; rtb_set: 2; rtb_promise: 3; rtb_regexp: 4; rtb_error: 5; rtb_array: 6; rtb_function: 7; rtb_weakmap: 8; rtb_weakset: 9; rtb_object: 10;
        rtb_uppercase: 11; rtb_lowercase: 12; rtb_capitalize: 13; rtb_uncapitalize: 14; rtb_parameters: 15; rtb_ctor_parameters: 16; rtb_record: 17; rtb_partial: 18; rtb_readonly: 19; }
#[kani::proof] #[kani::unwind(8)] #[kani::stub(std::ptr::drop_in_place, no_drop)] #[kani::stub(core::ptr::drop_glue, no_glue)] #[kani::stub(std::vec::Vec::extend_from_slice, extend_from_slice_model)]
fn rt_structural() {
    let v = visitor(any_options());
    use TsKeywordTypeKind::*;
    let fnty = TsType::TsFnOrConstructorType(TsFnOrConstructorType::TsFnType(TsFnType { span: sp(1), params: Vec::new(), type_params: None, type_ann: Box::new(TsTypeAnn { span: sp(1), type_ann: Box::new(kw(TsVoidKeyword)) }) }));
    assert!(rt_single(&v, &fnty, Some("Function")), "C17: function types -> Function");
    assert!(rt_single(&v, &TsType::TsArrayType(TsArrayType { span: sp(1), elem_type: Box::new(kw(TsStringKeyword)) }), Some("Array")), "C17: arrays -> Array");
    assert!(rt_single(&v, &TsType::TsTupleType(TsTupleType { span: sp(1), elem_types: Vec::new() }), Some("Array")), "C17: tuples -> Array");
    assert!(rt_single(&v, &TsType::TsParenthesizedType(TsParenthesizedType { span: sp(1), type_ann: Box::new(kw(TsNumberKeyword)) }), Some("Number")), "C17: parentheses are transparent");
    // union keeps declaration order: boolean | string
    let u = TsType::TsUnionOrIntersectionType(TsUnionOrIntersectionType::TsUnionType(TsUnionType { span: sp(1), types: vec![Box::new(kw(TsBooleanKeyword)), Box::new(kw(TsStringKeyword))] }));
    let r = v.infer_runtime_type(&u);
    assert!(r.0.len() == 2 && matches!(&r.0[0], Some(a) if &**a == "Boolean") && matches!(&r.0[1], Some(a) if &**a == "String"), "C17: a union is the union of its parts, Boolean and String in declaration order");
    // NonNullable removes null
    let nn = tref("NonNullable", vec![Box::new(TsType::TsUnionOrIntersectionType(TsUnionOrIntersectionType::TsUnionType(TsUnionType { span: sp(1), types: vec![Box::new(kw(TsStringKeyword)), Box::new(kw(TsNullKeyword))] })))]);
    assert!(rt_single(&v, &nn, Some("String")), "C17: NonNullable removes null");
    std::mem::forget(r); std::mem::forget(v);
}

// ---------------- C17: type list emission (single vs array, null kept) through the public entry extract_props_type ----------------
fn setup_with_props_type(members: Vec<TsTypeElement>) -> ExprOrSpread {
    let ann = TsTypeAnn { span: sp(1), type_ann: Box::new(TsType::TsTypeLit(TsTypeLit { span: sp(1), members })) };
    let param = Pat::Ident(BindingIdent { id: ident("props", local_ctxt()), type_ann: Some(Box::new(ann)) });
    ExprOrSpread { spread: None, expr: Box::new(Expr::Arrow(ArrowExpr { span: sp(1), ctxt: SyntaxContext::empty(), params: vec![param], body: Box::new(BlockStmtOrExpr::BlockStmt(BlockStmt::default())), is_async: false, is_generator: false, type_params: None, return_type: None })) }
}
fn prop_sig(name: &str, ty: TsType, optional: bool) -> TsTypeElement {
    TsTypeElement::TsPropertySignature(TsPropertySignature { span: sp(1), readonly: false, key: Box::new(Expr::Ident(ident(name, SyntaxContext::empty()))), computed: false, optional, type_ann: Some(Box::new(TsTypeAnn { span: sp(1), type_ann: Box::new(ty) })) })
}
#[kani::proof] #[kani::unwind(8)] #[kani::stub(std::ptr::drop_in_place, no_drop)] #[kani::stub(core::ptr::drop_glue, no_glue)] #[kani::stub(std::vec::Vec::extend_from_slice, extend_from_slice_model)] #[kani::stub(alloc::fmt::format, fmt_marker)]
fn props_type_emission_nullable_union() {
    use TsKeywordTypeKind::*;
    let mut v = visitor(any_options());
    let u = TsType::TsUnionOrIntersectionType(TsUnionOrIntersectionType::TsUnionType(TsUnionType { span: sp(1), types: vec![Box::new(kw(TsStringKeyword)), Box::new(kw(TsNullKeyword))] }));
    let setup = setup_with_props_type(vec![prop_sig("a", u, false)]);
    let r = v.extract_props_type(&setup);
    let ok = match &r { Some(Expr::Object(o)) if o.props.len() == 1 && prop_key_str(&o.props[0]) == Some("a") => match prop_value(&o.props[0]) {
        Some(Expr::Object(d)) => {
            let ty_ok = matches!(find_prop(&d.props, "type"), Some(Expr::Array(a)) if a.elems.len() == 2
                && matches!(&a.elems[0], Some(e) if matches!(&*e.expr, Expr::Ident(i) if &*i.sym == "String"))
                && matches!(&a.elems[1], Some(e) if matches!(&*e.expr, Expr::Lit(Lit::Null(..)))));
            let req_ok = matches!(find_prop(&d.props, "required"), Some(Expr::Lit(Lit::Bool(Bool { value: true, .. }))));
            ty_ok && req_ok
        }
        _ => false }, _ => false };
    assert!(ok, "C17: `string | null` emits type [String, null] (the null value stays in a multi-type list) and required: true");
    std::mem::forget(r); std::mem::forget(setup); std::mem::forget(v);
}
#[kani::proof] #[kani::unwind(8)] #[kani::stub(std::ptr::drop_in_place, no_drop)] #[kani::stub(core::ptr::drop_glue, no_glue)] #[kani::stub(std::vec::Vec::extend_from_slice, extend_from_slice_model)]
fn rt_indexed_access() {
    use TsKeywordTypeKind::*;
    let v = visitor(any_options());
    let arr = || Box::new(TsType::TsArrayType(TsArrayType { span: sp(1), elem_type: Box::new(kw(TsStringKeyword)) }));
    let by_lit = TsType::TsIndexedAccessType(TsIndexedAccessType { span: sp(1), readonly: false, obj_type: arr(), index_type: Box::new(lit_ty(TsLit::Number(Number { span: sp(1), value: 0.0, raw: None }))) });
    let by_kw = TsType::TsIndexedAccessType(TsIndexedAccessType { span: sp(1), readonly: false, obj_type: arr(), index_type: Box::new(kw(TsNumberKeyword)) });
    assert!(rt_single(&v, &by_lit, Some("String")), "C17: `string[][0]` (array indexed by a number literal) -> String");
    assert!(rt_single(&v, &by_kw, Some("String")), "C17: `string[][number]` -> String");
    let tup = TsType::TsTupleType(TsTupleType { span: sp(1), elem_types: vec![TsTupleElement { span: sp(1), label: None, ty: Box::new(kw(TsNumberKeyword)) }, TsTupleElement { span: sp(1), label: None, ty: Box::new(kw(TsBooleanKeyword)) }] });
    let t1 = TsType::TsIndexedAccessType(TsIndexedAccessType { span: sp(1), readonly: false, obj_type: Box::new(tup), index_type: Box::new(lit_ty(TsLit::Number(Number { span: sp(1), value: 1.0, raw: None }))) });
    assert!(rt_single(&v, &t1, Some("Boolean")), "C17: tuple indexing by a literal picks that element");
    std::mem::forget(v);
}

// ---- single-call variants with global-backed type inputs (the function branches on the type's shape) ----
fn kwb(k: TsKeywordTypeKind) -> Box<TsType> { bxt(kw(k)) }
fn rt_one<const K: u8>() {
    use TsKeywordTypeKind::*;
    use_global_inputs();
    let v = visitor(any_options());
    let (ty, expect): (TsType, Option<&str>) = match K {
        0 => (TsType::TsIndexedAccessType(TsIndexedAccessType { span: sp(1), readonly: false, obj_type: bxt(TsType::TsArrayType(TsArrayType { span: sp(1), elem_type: kwb(TsStringKeyword) })), index_type: bxt(lit_ty(TsLit::Number(Number { span: sp(1), value: 0.0, raw: None }))) }), Some("String")),
        1 => (TsType::TsIndexedAccessType(TsIndexedAccessType { span: sp(1), readonly: false, obj_type: bxt(TsType::TsArrayType(TsArrayType { span: sp(1), elem_type: kwb(TsStringKeyword) })), index_type: kwb(TsNumberKeyword) }), Some("String")),
        2 => (TsType::TsArrayType(TsArrayType { span: sp(1), elem_type: kwb(TsStringKeyword) }), Some("Array")),
        3 => (TsType::TsParenthesizedType(TsParenthesizedType { span: sp(1), type_ann: kwb(TsNumberKeyword) }), Some("Number")),
        4 => (TsType::TsFnOrConstructorType(TsFnOrConstructorType::TsFnType(TsFnType { span: sp(1), params: Vec::new(), type_params: None, type_ann: Box::new(TsTypeAnn { span: sp(1), type_ann: kwb(TsVoidKeyword) }) })), Some("Function")),
        _ => (TsType::TsTupleType(TsTupleType { span: sp(1), elem_types: Vec::new() }), Some("Array")),
    };
    assert!(rt_single(&v, &ty, expect), "C17: arrays / tuples -> Array, functions -> Function, parentheses transparent, `T[][0]` and `T[][number]` -> the element type");
    std::mem::forget(ty); std::mem::forget(v);
}
macro_rules! r1_h { ($($n:ident: $k:expr;)*) => { $(#[kani::proof] #[kani::unwind(5)] #[kani::stub(std::ptr::drop_in_place, no_drop)] #[kani::stub(core::ptr::drop_glue, no_glue)] #[kani::stub(std::vec::Vec::extend_from_slice, extend_from_slice_model)] #[kani::stub(alloc::alloc::dealloc, no_dealloc)] fn $n() { rt_one::<$k>() })* } }
r1_h! { rt1_array: 2; rt1_paren: 3; rt1_fn: 4; rt1_tuple: 5; }
macro_rules! r1i_h { ($($n:ident: $k:expr;)*) => { $(#[kani::proof] #[kani::unwind(3)] #[kani::stub(std::ptr::drop_in_place, no_drop)] #[kani::stub(core::ptr::drop_glue, no_glue)] #[kani::stub(std::vec::Vec::extend_from_slice, extend_from_slice_model)] #[kani::stub(alloc::alloc::dealloc, no_dealloc)] fn $n() { rt_one::<$k>() })* } }
r1i_h! { rt1_array_index_literal: 0; rt1_array_index_number: 1; }

fn rt_union<const K: u8>() {
    use TsKeywordTypeKind::*;
    use_global_inputs();
    let v = visitor(any_options());
    let ty = match K {
        0 => TsType::TsUnionOrIntersectionType(TsUnionOrIntersectionType::TsUnionType(TsUnionType { span: sp(1), types: vec![kwb(TsBooleanKeyword), kwb(TsStringKeyword)] })),
        1 => TsType::TsUnionOrIntersectionType(TsUnionOrIntersectionType::TsUnionType(TsUnionType { span: sp(1), types: vec![kwb(TsStringKeyword), kwb(TsBooleanKeyword)] })),
        _ => tref("NonNullable", vec![bxt(TsType::TsUnionOrIntersectionType(TsUnionOrIntersectionType::TsUnionType(TsUnionType { span: sp(1), types: vec![kwb(TsStringKeyword), kwb(TsNullKeyword)] })))]),
    };
    let r = v.infer_runtime_type(&ty);
    let at = |i: usize, s: &str| matches!(&r.0[i], Some(a) if &**a == s);
    match K {
        0 => assert!(r.0.len() == 2 && at(0, "Boolean") && at(1, "String"), "C17: a union is the union of its parts; Boolean and String stay in declaration order"),
        1 => assert!(r.0.len() == 2 && at(0, "String") && at(1, "Boolean"), "C17: a union is the union of its parts; String and Boolean stay in declaration order"),
        _ => assert!(r.0.len() == 1 && at(0, "String"), "C17: NonNullable removes null"),
    }
    std::mem::forget(r); std::mem::forget(ty); std::mem::forget(v);
}
macro_rules! ru_h { ($($n:ident: $k:expr;)*) => { $(#[kani::proof] #[kani::unwind(4)] #[kani::stub(std::ptr::drop_in_place, no_drop)] #[kani::stub(core::ptr::drop_glue, no_glue)] #[kani::stub(std::vec::Vec::extend_from_slice, extend_from_slice_model)] #[kani::stub(alloc::alloc::dealloc, no_dealloc)] fn $n() { rt_union::<$k>() })* } }
ru_h! { rt1_union_boolean_string: 0; rt1_union_string_boolean: 1; rt1_nonnullable: 2; }
