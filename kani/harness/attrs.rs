//! U-attrs: the real `transform_attrs` on one attribute of every kind (C01 props, C04 html/text, C05 v-model keys,
//! C13 hints, C08 no panic).  Symbolic: host kind, options, constness of the value.  Callees with string loops are
//! replaced by their spec models (parse_directive, transform_text, is_jsx_attr_value_constant, format!).
use super::common::*;
use super::specs::*;
use crate::*;

pub(crate) fn attr_name_of(n: u8) -> &'static str {
    match n { 0 => "class", 1 => "style", 2 => "key", 3 => "ref", 4 => "on", 5 => "nativeOn", 6 => "onClick", 7 => "onclick", 8 => "onFoo", 9 => "onUpdate:modelValue", 10 => "id", _ => "a:b" }
}

/// Soundness of the hints for ONE plain attribute (statement of C13), plus C01 "props are exactly the written attribute".
fn plain_attr<const NAME: u8, const VAL: u8>() {
    let name = attr_name_of(NAME);
    let is_component: bool = kani::any();
    let opts = any_options();
    let transform_on = opts.transform_on;
    let mut v = visitor(opts);
    let c: bool = if VAL == 2 { true } else { kani::any() };
    unsafe { CONST_ORACLE = c; }
    let value = match VAL { 0 => Some(container(opaque(1))), 1 => None, _ => Some(str_value("lit")) };
    let a = if NAME == 11 { ns_attr("a", "b", value) } else { attr(name, value) };
    let attrs = [a];
    let mut directives = Vec::new();
    let r = v.transform_attrs(&attrs, is_component, &mut directives);
    let f = r.patch_flags.bits();
    let really_dynamic = VAL == 0 && !c;
    let merged = transform_on && (NAME == 4 || NAME == 5);

    // C13 clause: negative (hoist/bail) flags are never emitted
    assert!(f >= 0, "C13: patch flag is never negative");
    // shape of the props expression (C01): exactly the written attribute
    if merged {
        let parts = call_parts(&r.attrs);
        assert!(matches!(parts, Some((Expr::Ident(h), args)) if Some(h.ctxt) == v.transform_on_helper.as_ref().map(|i| i.ctxt) && args.len() == 1 && is_opaque_or_true_or_tt(&args[0].expr, VAL)),
            "C01: `on`/`nativeOn` under transformOn becomes transformOn(<value>)");
        // C13 clause: merged / computed props carry FULL_PROPS or no flag at all
        assert!(f == 0 || (f & F_FULL) != 0, "C13: props merged through transformOn carry the full-props bit or no flag");
        assert!(dyn_len(&r.dynamic_props) == 0 || (f & F_FULL) != 0, "C13: dynamic-prop list names only props actually present (a merged attribute is not a named prop)");
    } else {
        let props = match &r.attrs { Expr::Object(o) => &o.props, _ => { assert!(false, "C01: a single plain attribute yields an object literal of props"); return; } };
        assert!(props.len() == 1, "C01: exactly one prop for one written attribute");
        assert!(prop_key_str(&props[0]) == Some(name), "C01: the prop key is the written attribute name (namespaced names keep their colon)");
        let pv = prop_value(&props[0]).unwrap();
        assert!(is_opaque_or_true_or_tt(pv, VAL), "C01: the prop value is the written expression / `true` when value-less / the normalised string");
        // C13 clause: every prop whose value can differ between renders is covered
        if really_dynamic && f > 0 && (f & F_FULL) == 0 && NAME != 2 && NAME != 3 {
            if NAME == 0 && !is_component { assert!((f & F_CLASS) != 0, "C13: dynamic class on an element sets the CLASS bit"); }
            else if NAME == 1 && !is_component { assert!((f & F_STYLE) != 0, "C13: dynamic style on an element sets the STYLE bit"); }
            else { assert!(dyn_contains(&r.dynamic_props, name) && (f & F_PROPS) != 0, "C13: any other dynamic prop is named in the dynamic-prop list together with the PROPS bit"); }
        }
        // C13 clause: the dynamic-prop list names only props actually present
        assert!(dyn_len(&r.dynamic_props) == 0 || (dyn_len(&r.dynamic_props) == 1 && dyn_contains(&r.dynamic_props, name)), "C13: dynamic-prop list names only props actually present");
        // PROPS bit and list go together
        assert!(((f & F_PROPS) != 0) == (dyn_len(&r.dynamic_props) > 0) || (f & F_FULL) != 0, "C13: PROPS bit is set exactly when the dynamic-prop list is non-empty");
    }
    // C13 clause: a vnode with a ref is never left with the hydration bit alone
    if NAME == 3 { assert!(f != F_HYDRATE && f != 0, "C13: a vnode with a ref carries NEED_PATCH when it has no other flag"); }
    assert!(f != F_HYDRATE || (NAME != 3 && directives.is_empty()), "C13: hydration bit alone only without ref/directives");
    assert!(directives.is_empty() && r.slots.is_none(), "C04: a plain attribute creates no directive binding and no slots");
    kani::cover!(is_component && really_dynamic, "component host with dynamic value reachable");
    kani::cover!(!is_component && !really_dynamic, "element host with constant value reachable");
    kani::cover!(f > 0, "positive flag reachable");
    std::mem::forget(r); std::mem::forget(attrs); std::mem::forget(directives); std::mem::forget(v);
}
fn is_opaque_or_true_or_tt(e: &Expr, val: u8) -> bool {
    match val { 0 => is_opaque(e, 1), 1 => matches!(e, Expr::Lit(Lit::Bool(Bool { value: true, .. }))), _ => is_strlit(e, "<tt>") }
}
macro_rules! plain { ($($n:ident: $k:expr, $v:expr;)*) => { $(#[kani::proof] #[kani::unwind(3)]
    #[kani::stub(std::ptr::drop_in_place, no_drop)] #[kani::stub(core::ptr::drop_glue, no_glue)] #[kani::stub(std::vec::Vec::extend_from_slice, extend_from_slice_model)]
    #[kani::stub(crate::directive::parse_directive, pd_model)] #[kani::stub(crate::util::transform_text, tt_marker)]
    #[kani::stub(crate::util::is_jsx_attr_value_constant, const_model)] #[kani::stub(alloc::fmt::format, fmt_marker)]
    fn $n() { plain_attr::<$k, $v>() })* } }
plain! {
    attr_class_dyn: 0, 0; attr_style_dyn: 1, 0; attr_key_dyn: 2, 0; attr_ref_dyn: 3, 0; attr_on_dyn: 4, 0; attr_nativeon_dyn: 5, 0;
    attr_onclick_camel_dyn: 6, 0; attr_onclick_lower_dyn: 7, 0; attr_onfoo_dyn: 8, 0; attr_onupdate_dyn: 9, 0; attr_id_dyn: 10, 0;
    attr_id_bool: 10, 1; attr_id_str: 10, 2; attr_class_str: 0, 2; attr_onfoo_bool: 8, 1;
}
// namespaced name needs the real format! ("{}:{}"): own harness without the format stub
#[kani::proof] #[kani::unwind(3)]
#[kani::stub(std::ptr::drop_in_place, no_drop)] #[kani::stub(core::ptr::drop_glue, no_glue)] #[kani::stub(std::vec::Vec::extend_from_slice, extend_from_slice_model)]
#[kani::stub(crate::directive::parse_directive, pd_model)] #[kani::stub(crate::util::transform_text, tt_marker)]
#[kani::stub(crate::util::is_jsx_attr_value_constant, const_model)]
fn attr_namespaced_dyn() { plain_attr::<11, 0>() }

/// Directive arms of transform_attrs (parse_directive replaced by its model): C04 html/text props, C05 v-model keys,
/// C13 hints for the props those arms add.
fn directive_arm<const PD: u8>() {
    let is_component: bool = kani::any();
    let mut v = visitor(any_options());
    unsafe { PD_KIND = PD; }
    let attrs = [attr("v-x", Some(container(opaque(1))))];
    let mut directives = Vec::new();
    let r = v.transform_attrs(&attrs, is_component, &mut directives);
    let f = r.patch_flags.bits();
    assert!(f >= 0, "C13: patch flag is never negative");
    let empty: Vec<PropOrSpread> = Vec::new();
    let props: &Vec<PropOrSpread> = match &r.attrs { Expr::Object(o) => &o.props, Expr::Lit(Lit::Null(..)) => &empty, _ => { assert!(false, "directive arms yield an object literal or null"); return; } };
    // every dynamic-prop name is a prop actually present (C13)
    if let Some(dp) = &r.dynamic_props { let mut i = 0; while i < dp.0.len() { assert!(find_prop(props, &dp.0[i]).is_some(), "C13: dynamic-prop list names only props actually present"); i += 1; } }
    match PD {
        0 => {
            assert!(directives.len() == 1 && props.is_empty(), "C04: a normal directive yields exactly one runtime binding and no prop");
            assert!(f != F_HYDRATE && f != 0, "C13: a vnode with a runtime directive carries NEED_PATCH when it has no other flag");
        }
        1 | 2 => {
            let key = if PD == 1 { "innerHTML" } else { "textContent" };
            assert!(props.len() == 1 && matches!(find_prop(props, key), Some(e) if is_opaque(e, 9)), "C04: v-html / v-text set the innerHTML / textContent prop to the given value");
            assert!(directives.is_empty(), "C04: v-html / v-text create no runtime directive binding");
            assert!((f & F_FULL) != 0 || ((f & F_PROPS) != 0 && dyn_contains(&r.dynamic_props, key)), "C13: innerHTML/textContent are dynamic props covered by the list");
        }
        3 | 4 | 5 | 6 => {
            // C05: keys of the generated props
            let (value_key, mods_key, listener_key) = match PD { 4 => ("foo", "fooModifiers", "onUpdate:foo"), _ => ("modelValue", "modelModifiers", "onUpdate:modelValue") };
            if PD != 5 {
                let l = find_prop(props, listener_key);
                assert!(matches!(l, Some(Expr::Arrow(a)) if arrow_assigns_event_to(a, 9)), "C05: an `onUpdate:<name>` listener assigns its argument to the bound target");
                if is_component {
                    assert!(matches!(find_prop(props, value_key), Some(e) if is_opaque(e, 9)), "C05: component v-model passes the value as `modelValue` / the argument name");
                    if PD != 3 { assert!(find_prop(props, mods_key).is_some(), "C05: modifiers are passed as `modelModifiers` / `<arg>Modifiers`"); }
                    assert!(directives.is_empty(), "C05: component v-model creates no directive binding");
                } else {
                    assert!(directives.len() == 1 && &*directives[0].name == "model" && is_opaque(&directives[0].value, 9), "C05: element v-model attaches the model directive with the bound value");
                }
                // hints: the added props are dynamic and must be covered (C13)
                assert!((f & F_FULL) != 0 || ((f & F_PROPS) != 0 && dyn_contains(&r.dynamic_props, listener_key) && (!is_component || dyn_contains(&r.dynamic_props, value_key))), "C13: v-model props are covered by the dynamic-prop list");
            } else {
                // computed argument: keys are computed => FULL_PROPS (C13), listener key is "onUpdate:" + arg (C05)
                assert!((f & F_FULL) != 0, "C13: computed v-model keys carry the full-props bit");
                let mut found = false; let mut i = 0;
                while i < props.len() {
                    if let PropOrSpread::Prop(p) = &props[i] { if let Prop::KeyValue(KeyValueProp { key: PropName::Computed(ck), value }) = &**p {
                        if let Expr::Bin(BinExpr { op: BinaryOp::Add, left, right, .. }) = &*ck.expr {
                            if matches!(&**value, Expr::Arrow(..)) { found = true; assert!(is_strlit(left, "onUpdate:") && is_opaque(right, 8), "C05: the computed listener key is `onUpdate:` + <argument>"); }
                        }
                    } }
                    i += 1;
                }
                assert!(found, "C05: a listener prop with a computed key is generated for a computed argument");
            }
        }
        7 => assert!(matches!(&r.slots, Some(e) if is_opaque(e, 7)) && props.is_empty() && directives.is_empty(), "C03: v-slots yields the slots expression and no prop"),
        _ => assert!(r.slots.is_none() && props.is_empty() && directives.is_empty(), "C03: v-slots without a usable value yields nothing"),
    }
    kani::cover!(is_component, "component host reachable");
    kani::cover!(!is_component, "element host reachable");
    std::mem::forget(r); std::mem::forget(attrs); std::mem::forget(directives); std::mem::forget(v);
}
fn arrow_assigns_event_to(a: &ArrowExpr, target: u32) -> bool {
    let p_ok = a.params.len() == 1 && matches!(&a.params[0], Pat::Ident(b) if &*b.id.sym == "$event");
    let b_ok = match &*a.body { BlockStmtOrExpr::Expr(e) => match &**e {
        Expr::Assign(AssignExpr { left: AssignTarget::Simple(SimpleAssignTarget::Paren(p)), right, .. }) => is_opaque(&p.expr, target) && matches!(&**right, Expr::Ident(i) if &*i.sym == "$event"),
        _ => false }, _ => false };
    p_ok && b_ok
}
macro_rules! darm { ($($n:ident: $k:expr;)*) => { $(#[kani::proof] #[kani::unwind(3)]
    #[kani::stub(std::ptr::drop_in_place, no_drop)] #[kani::stub(core::ptr::drop_glue, no_glue)] #[kani::stub(std::vec::Vec::extend_from_slice, extend_from_slice_model)]
    #[kani::stub(crate::directive::parse_directive, pd_model)] #[kani::stub(crate::util::transform_text, tt_marker)]
    #[kani::stub(crate::util::is_jsx_attr_value_constant, const_model)] #[kani::stub(alloc::fmt::format, fmt_marker)]
    fn $n() { directive_arm::<$k>() })* } }
darm! { darm_normal: 0; darm_html: 1; darm_text: 2; darm_vmodel_plain: 3; darm_vmodel_computed: 5; darm_vmodel_nullarg: 6; darm_slots_some: 7; darm_slots_none: 8; }
// string argument: the generated keys `fooModifiers` / `onUpdate:foo` are built with the real format!
#[kani::proof] #[kani::unwind(3)]
#[kani::stub(std::ptr::drop_in_place, no_drop)] #[kani::stub(core::ptr::drop_glue, no_glue)] #[kani::stub(std::vec::Vec::extend_from_slice, extend_from_slice_model)]
#[kani::stub(crate::directive::parse_directive, pd_model)] #[kani::stub(crate::util::transform_text, tt_marker)]
#[kani::stub(crate::util::is_jsx_attr_value_constant, const_model)]
fn darm_vmodel_strarg() { directive_arm::<4>() }
#[kani::proof] #[kani::unwind(3)]
fn fmt_probe() { let a = Atom::from("foo"); let s = format!("onUpdate:{a}"); assert!(s == "onUpdate:foo"); std::mem::forget(s); }
